"""Semantics-preserving canonicalisation of module ASTs, applied before the model is built.

Why: the rules recognise the constructs of a property in the *shape* the code has today.  A maintainer can change the
shape without changing behaviour (extract a helper closure, use `match`, spell a lock region as acquire/try/finally,
keep shared flags in a small state object instead of `nonlocal`s ...).  Each pass below rewrites one such shape into
the canonical one and is an *equivalence*: the rewritten program has the same behaviour as the one on disk, so a rule
verdict on the rewritten program is a verdict on the program on disk.  `__main__` evaluates the rules on a sequence
of increasingly canonicalised variants and takes the first variant on which every obligation is discharged; a
violation is reported only when no variant discharges it (see DESIGN section 3.2).

Nothing here imports or executes repo code; it is AST -> AST.  Source positions of the original statements are kept so
that findings still point into the file on disk.

Passes (levels are cumulative):
  level 1  match -> if/elif         (value / singleton / or / wildcard patterns on a side-effect-free subject)
           acquire/try/finally/release -> with
           inline non-escaping nested helper functions (closures that are only ever called)
           record-like state objects (simple class / SimpleNamespace / dict / one-element list) -> plain variables
  level 2  inline module-level helper functions that do not exist in the reference tree (table KNOWN_FUNCS)
  level 3  inline every inlinable private module-level helper
Frame-introspecting code is never moved (inlining changes the frame chain): helpers that call get_stack_frame /
sys._getframe / inspect.* are left alone, as are generators, decorated and recursive functions.
"""
from __future__ import annotations

import ast
import copy
import itertools

MAX_LEVEL = 2

_SCOPE_NODES = (ast.FunctionDef, ast.AsyncFunctionDef, ast.Lambda, ast.ClassDef,
                ast.ListComp, ast.SetComp, ast.DictComp, ast.GeneratorExp)
_FUNC_NODES = (ast.FunctionDef, ast.AsyncFunctionDef)
_FRAME_SENSITIVE = {"get_stack_frame", "_getframe", "currentframe", "stack", "extract_stack", "format_stack",
                    "print_stack", "walk_stack"}


# ---------------------------------------------------------------------------------------------- scope helpers
def iter_own(node_or_list):
    """Nodes of one scope: does not descend into nested function/lambda/class/comprehension bodies (their headers -
    decorators, defaults, the first iterable of a comprehension - are evaluated in the enclosing scope and are
    included)."""
    stack = list(node_or_list) if isinstance(node_or_list, list) else [node_or_list]
    first = True
    while stack:
        n = stack.pop()
        yield n
        if isinstance(n, _FUNC_NODES):
            stack.extend(n.decorator_list)
            stack.extend(n.args.defaults)
            stack.extend(d for d in n.args.kw_defaults if d is not None)
            if n.returns is not None:
                stack.append(n.returns)
            continue
        if isinstance(n, ast.Lambda):
            stack.extend(n.args.defaults)
            stack.extend(d for d in n.args.kw_defaults if d is not None)
            continue
        if isinstance(n, ast.ClassDef):
            stack.extend(n.decorator_list)
            stack.extend(n.bases)
            stack.extend(k.value for k in n.keywords)
            continue
        if isinstance(n, (ast.ListComp, ast.SetComp, ast.DictComp, ast.GeneratorExp)):
            stack.append(n.generators[0].iter)
            continue
        stack.extend(ast.iter_child_nodes(n))


def scope_body(scope):
    """Child nodes evaluated inside the scope introduced by `scope`."""
    if isinstance(scope, _FUNC_NODES):
        return list(scope.body)
    if isinstance(scope, ast.Lambda):
        return [scope.body]
    if isinstance(scope, ast.ClassDef):
        return list(scope.body)
    if isinstance(scope, (ast.ListComp, ast.SetComp, ast.GeneratorExp)):
        out = [scope.elt]
    elif isinstance(scope, ast.DictComp):
        out = [scope.key, scope.value]
    else:
        return []
    for i, g in enumerate(scope.generators):
        out.append(g.target)
        if i:
            out.append(g.iter)
        out.extend(g.ifs)
    return out


def params_of(fn):
    a = fn.args
    out = [x.arg for x in a.posonlyargs + a.args + a.kwonlyargs]
    if a.vararg:
        out.append(a.vararg.arg)
    if a.kwarg:
        out.append(a.kwarg.arg)
    return out


def declared(scope, kind):
    out = set()
    for n in iter_own(scope_body(scope)):
        if isinstance(n, kind):
            out.update(n.names)
    return out


def bound_names(scope):
    """Names bound in the scope itself (parameters, assignment targets, loop/with/except/import/def/class names),
    minus those declared nonlocal/global."""
    out = set()
    if isinstance(scope, _FUNC_NODES + (ast.Lambda,)):
        out.update(params_of(scope))
    for n in iter_own(scope_body(scope)):
        if isinstance(n, ast.Name) and isinstance(n.ctx, (ast.Store, ast.Del)):
            out.add(n.id)
        elif isinstance(n, _FUNC_NODES + (ast.ClassDef,)):
            out.add(n.name)
        elif isinstance(n, ast.ExceptHandler) and n.name:
            out.add(n.name)
        elif isinstance(n, (ast.Import, ast.ImportFrom)):
            for al in n.names:
                out.add((al.asname or al.name).split(".")[0])
        elif isinstance(n, (ast.MatchAs, ast.MatchStar)) and n.name:
            out.add(n.name)
        elif isinstance(n, ast.MatchMapping) and n.rest:
            out.add(n.rest)
    if isinstance(scope, (ast.ListComp, ast.SetComp, ast.DictComp, ast.GeneratorExp)):
        # walrus targets inside a comprehension bind in the enclosing function, not here
        walrus = {n.target.id for n in iter_own(scope_body(scope)) if isinstance(n, ast.NamedExpr)}
        tg = set()
        for g in scope.generators:
            tg.update(x.id for x in ast.walk(g.target) if isinstance(x, ast.Name))
        out = (out - walrus) | tg
    return out - declared(scope, ast.Nonlocal) - declared(scope, ast.Global)


def nested_scopes(scope):
    """Directly nested scope nodes."""
    return [n for n in iter_own(scope_body(scope)) if isinstance(n, _SCOPE_NODES)]


def free_names(scope):
    """Names referenced in `scope` (or below) that are bound outside it."""
    bound = bound_names(scope)
    out = set(declared(scope, ast.Nonlocal))
    for n in iter_own(scope_body(scope)):
        if isinstance(n, ast.Name) and n.id not in bound:
            out.add(n.id)
    for s in nested_scopes(scope):
        out.update(x for x in free_names(s) if x not in bound or isinstance(scope, ast.ClassDef))
    return out - declared(scope, ast.Global)


def assigned_anywhere(scope):
    """Names that `scope` or any nested scope may rebind in an enclosing scope (nonlocal writes) or itself."""
    out = set(bound_names(scope)) | declared(scope, ast.Nonlocal)
    for s in nested_scopes(scope):
        out |= declared(s, ast.Nonlocal)
        out |= {x for x in assigned_anywhere(s) if x in declared(s, ast.Nonlocal)}
    return out


class Renamer(ast.NodeTransformer):
    """Scope-aware substitution.  mapping: name -> new name (str) or expression node (Load positions only)."""

    def __init__(self, mapping):
        self.maps = [dict(mapping)]

    @property
    def m(self):
        return self.maps[-1]

    def _enter(self, scope):
        shadow = bound_names(scope)
        self.maps.append({k: v for k, v in self.m.items() if k not in shadow})

    def _leave(self):
        self.maps.pop()

    def visit_Name(self, n):
        r = self.m.get(n.id)
        if r is None:
            return n
        if isinstance(r, str):
            return ast.copy_location(ast.Name(id=r, ctx=n.ctx), n)
        if not isinstance(n.ctx, ast.Load):
            raise _Bail(f"substituted parameter {n.id} is assigned")
        return ast.copy_location(copy.deepcopy(r), n)

    def visit_Nonlocal(self, n):
        n.names = [self.m[x] if isinstance(self.m.get(x), str) else x for x in n.names]
        return n

    visit_Global = visit_Nonlocal

    def _visit_func(self, n):
        n.decorator_list = [self.visit(d) for d in n.decorator_list]
        n.args.defaults = [self.visit(d) for d in n.args.defaults]
        n.args.kw_defaults = [self.visit(d) if d is not None else None for d in n.args.kw_defaults]
        if isinstance(self.m.get(n.name), str):
            n.name = self.m[n.name]
        self._enter(n)
        n.body = [self.visit(s) for s in n.body]
        self._leave()
        return n

    visit_FunctionDef = _visit_func
    visit_AsyncFunctionDef = _visit_func

    def visit_Lambda(self, n):
        n.args.defaults = [self.visit(d) for d in n.args.defaults]
        n.args.kw_defaults = [self.visit(d) if d is not None else None for d in n.args.kw_defaults]
        self._enter(n)
        n.body = self.visit(n.body)
        self._leave()
        return n

    def visit_ClassDef(self, n):
        n.decorator_list = [self.visit(d) for d in n.decorator_list]
        n.bases = [self.visit(b) for b in n.bases]
        if isinstance(self.m.get(n.name), str):
            n.name = self.m[n.name]
        self._enter(n)
        n.body = [self.visit(s) for s in n.body]
        self._leave()
        return n

    def _visit_comp(self, n):
        n.generators[0].iter = self.visit(n.generators[0].iter)
        self._enter(n)
        for i, g in enumerate(n.generators):
            g.target = self.visit(g.target)
            if i:
                g.iter = self.visit(g.iter)
            g.ifs = [self.visit(x) for x in g.ifs]
        if isinstance(n, ast.DictComp):
            n.key = self.visit(n.key)
            n.value = self.visit(n.value)
        else:
            n.elt = self.visit(n.elt)
        self._leave()
        return n

    visit_ListComp = visit_SetComp = visit_GeneratorExp = visit_DictComp = _visit_comp

    def visit_ExceptHandler(self, n):
        if n.name and isinstance(self.m.get(n.name), str):
            n.name = self.m[n.name]
        return self.generic_visit(n)


class _Bail(Exception):
    pass


def stmt_lists(node):
    """Every (owner, field, list) statement list below `node` (own scope and nested scopes)."""
    for n in ast.walk(node):
        for field in ("body", "orelse", "finalbody"):
            lst = getattr(n, field, None)
            if isinstance(lst, list) and lst and isinstance(lst[0], ast.stmt):
                yield n, field, lst
        if isinstance(n, ast.Try):
            for h in n.handlers:
                pass  # handlers are visited by ast.walk (their .body)
        if isinstance(n, ast.Match):
            for c in n.cases:
                pass  # match_case.body visited by ast.walk


def _loc(new, like):
    ast.copy_location(new, like)
    for n in ast.walk(new):
        if not hasattr(n, "lineno") and isinstance(n, (ast.expr, ast.stmt)):
            ast.copy_location(n, like)
    return new


def is_pure_simple(e):
    """Expression without side effects whose value cannot be changed by evaluating something else in between only
    if it is a constant; names/attributes are 'simple' (cheap, side-effect free)."""
    if isinstance(e, (ast.Constant, ast.Name)):
        return True
    if isinstance(e, ast.Attribute):
        return is_pure_simple(e.value)
    if isinstance(e, ast.UnaryOp) and isinstance(e.op, (ast.USub, ast.Not)):
        return is_pure_simple(e.operand)
    return False


# ---------------------------------------------------------------------------------------------- pass: match -> if
def _pattern_test(subject, pat):
    """Boolean expression equivalent to `subject matches pat`, or None (pattern kind not handled).
    Returns (test | True, bindings[(name)])."""
    if isinstance(pat, ast.MatchValue):
        return ast.Compare(left=copy.deepcopy(subject), ops=[ast.Eq()], comparators=[copy.deepcopy(pat.value)]), None
    if isinstance(pat, ast.MatchSingleton):
        return ast.Compare(left=copy.deepcopy(subject), ops=[ast.Is()], comparators=[ast.Constant(pat.value)]), None
    if isinstance(pat, ast.MatchAs) and pat.pattern is None:
        return True, pat.name
    if isinstance(pat, ast.MatchClass) and not pat.patterns and not pat.kwd_patterns and isinstance(pat.cls, (ast.Name, ast.Attribute)):
        # `case K():` is an isinstance test (subclass instances match too)
        return ast.Call(func=ast.Name(id="isinstance", ctx=ast.Load()), args=[copy.deepcopy(subject), copy.deepcopy(pat.cls)], keywords=[]), None
    if isinstance(pat, ast.MatchOr):
        tests = []
        for p in pat.patterns:
            t, b = _pattern_test(subject, p)
            if t is None or b is not None:
                return None, None
            if t is True:
                return True, None
            tests.append(t)
        return ast.BoolOp(op=ast.Or(), values=tests), None
    return None, None


class MatchToIf(ast.NodeTransformer):
    def __init__(self):
        self.changed = 0

    def visit_Match(self, n):
        self.generic_visit(n)
        pre = []
        if not is_pure_simple(n.subject):
            # evaluate the subject once into a fresh variable, then match on that
            self._k = getattr(self, "_k", 0) + 1
            tmp = f"match__subject__{self._k}"
            pre = [_loc(ast.Assign(targets=[ast.Name(id=tmp, ctx=ast.Store())], value=n.subject), n)]
            n2 = _loc(ast.Match(subject=_loc(ast.Name(id=tmp, ctx=ast.Load()), n), cases=n.cases), n)
            out = self._lower(n2)
            return n if out is n2 else pre + (out if isinstance(out, list) else [out])
        return self._lower(n)

    def _lower(self, n):
        arms = []
        for c in n.cases:
            t, bind = _pattern_test(n.subject, c.pattern)
            if t is None:
                return n
            body = list(c.body)
            if bind:
                body = [_loc(ast.Assign(targets=[ast.Name(id=bind, ctx=ast.Store())], value=copy.deepcopy(n.subject)), c.body[0])] + body
                if c.guard is not None:
                    return n  # guard may refer to the binding: keep it simple
            if c.guard is not None:
                t = c.guard if t is True else ast.BoolOp(op=ast.And(), values=[t, c.guard])
            arms.append((t, body, c))
        # build the chain from the back; arms after an irrefutable one are unreachable
        chain = []
        for t, body, c in reversed(arms):
            if t is True:
                chain = body
            else:
                chain = [_loc(ast.If(test=t, body=body, orelse=chain), c.body[0])]
        if not chain:
            return n
        self.changed += 1
        if len(chain) == 1 and isinstance(chain[0], ast.If):
            return _loc(chain[0], n)
        return chain


# ---------------------------------------------------------------------------------------------- pass: **{...} / **helper() -> keywords
def expand_dict_splats(tree):
    """`f(**{"a": x, "b": y})` -> `f(a=x, b=y)`;  `f(**opts(e))` likewise when `opts` is a module-level function whose whole
    body is `return {<constant keys>: ...}` and the argument is a simple expression (substituted for the parameter)."""
    helpers = {}
    for st in tree.body:
        if isinstance(st, ast.FunctionDef) and not st.decorator_list and not st.args.vararg and not st.args.kwarg and not st.args.kwonlyargs:
            body = _strip_doc(st.body)
            if len(body) == 1 and isinstance(body[0], ast.Return) and isinstance(body[0].value, ast.Dict) and body[0].value.keys and \
                    all(isinstance(k, ast.Constant) and isinstance(k.value, str) and k.value.isidentifier() for k in body[0].value.keys):
                helpers[st.name] = st
    # the same through a private method of the calling class: `f(**self._opts())` with `def _opts(self): return {...}` (not overridden
    # by another class of the module)
    method_helpers = {}
    overridden = {}
    for cls in [n for n in ast.walk(tree) if isinstance(n, ast.ClassDef)]:
        for st in cls.body:
            if isinstance(st, ast.FunctionDef):
                overridden[st.name] = overridden.get(st.name, 0) + 1
    for cls in [n for n in ast.walk(tree) if isinstance(n, ast.ClassDef)]:
        for st in cls.body:
            if isinstance(st, ast.FunctionDef) and st.name.startswith("_") and not st.name.startswith("__") and not st.decorator_list \
                    and len(st.args.args) == 1 and not st.args.vararg and not st.args.kwarg and not st.args.kwonlyargs and overridden.get(st.name) == 1:
                body = _strip_doc(st.body)
                if len(body) == 1 and isinstance(body[0], ast.Return) and isinstance(body[0].value, ast.Dict) and body[0].value.keys and \
                        all(isinstance(k, ast.Constant) and isinstance(k.value, str) and k.value.isidentifier() for k in body[0].value.keys):
                    for meth in cls.body:
                        if isinstance(meth, ast.FunctionDef) and meth.args.args:
                            for c_ in ast.walk(meth):
                                if isinstance(c_, ast.Call):
                                    method_helpers[id(c_)] = (cls, meth.args.args[0].arg)
                    method_helpers[(id(cls), st.name)] = st
    changed = 0
    for call in [n for n in ast.walk(tree) if isinstance(n, ast.Call)]:
        new_kw = []
        dirty = False
        for kw in call.keywords:
            if kw.arg is not None:
                new_kw.append(kw)
                continue
            d = kw.value
            if isinstance(d, ast.Call) and isinstance(d.func, ast.Attribute) and isinstance(d.func.value, ast.Name) and not d.args and not d.keywords \
                    and id(call) in method_helpers and d.func.value.id == method_helpers[id(call)][1] \
                    and (id(method_helpers[id(call)][0]), d.func.attr) in method_helpers:
                h = method_helpers[(id(method_helpers[id(call)][0]), d.func.attr)]
                ret = copy.deepcopy(_strip_doc(h.body)[0].value)
                d = Renamer({h.args.args[0].arg: ast.Name(id=d.func.value.id, ctx=ast.Load())}).visit(ret)
            if isinstance(d, ast.Call) and isinstance(d.func, ast.Name) and d.func.id in helpers and not d.keywords \
                    and all(is_pure_simple(a) for a in d.args):
                h = helpers[d.func.id]
                ps = [a.arg for a in h.args.posonlyargs + h.args.args]
                if len(ps) == len(d.args):
                    ret = copy.deepcopy(_strip_doc(h.body)[0].value)
                    d = Renamer(dict(zip(ps, d.args))).visit(ret)
            if isinstance(d, ast.Dict) and d.keys and all(isinstance(k, ast.Constant) and isinstance(k.value, str) and k.value.isidentifier() for k in d.keys):
                for k, v in zip(d.keys, d.values):
                    new_kw.append(ast.copy_location(ast.keyword(arg=k.value, value=v), kw.value))
                dirty = True
            else:
                new_kw.append(kw)
        if dirty and len({k.arg for k in new_kw if k.arg}) == len([k for k in new_kw if k.arg]):
            call.keywords = new_kw
            changed += 1
    return changed


# ---------------------------------------------------------------------------------------------- pass: read-modify-write through a local
def rmw_through_local(tree):
    """`t = X[k] - c; X[k] = t`  ->  `X[k] -= c; t = X[k]`   (X, k side-effect-free names; also `+`)."""
    changed = 0
    for _o, _f, lst in list(stmt_lists(tree)):
        i = 0
        while i + 1 < len(lst):
            a, b = lst[i], lst[i + 1]
            if isinstance(a, ast.Assign) and len(a.targets) == 1 and isinstance(a.targets[0], ast.Name) and isinstance(a.value, ast.BinOp) \
                    and isinstance(a.value.op, (ast.Sub, ast.Add)) and isinstance(a.value.left, ast.Subscript) \
                    and is_pure_simple(a.value.left.value) and is_pure_simple(a.value.left.slice) and isinstance(a.value.right, ast.Constant) \
                    and isinstance(b, ast.Assign) and len(b.targets) == 1 and isinstance(b.targets[0], ast.Subscript) \
                    and isinstance(b.value, ast.Name) and b.value.id == a.targets[0].id \
                    and ast.dump(b.targets[0].value) == ast.dump(a.value.left.value) and ast.dump(b.targets[0].slice) == ast.dump(a.value.left.slice):
                aug = _loc(ast.AugAssign(target=copy.deepcopy(b.targets[0]), op=a.value.op, value=a.value.right), a)
                rd = copy.deepcopy(a.value.left)
                rd.ctx = ast.Load()
                ld = _loc(ast.Assign(targets=[a.targets[0]], value=rd), b)
                lst[i:i + 2] = [aug, ld]
                changed += 1
            i += 1
    return changed


# ---------------------------------------------------------------------------------------------- pass: deferred flag tests
def sink_flag_tests(tree):
    """`if c: ...; f = A  else: ...; f = B` followed by `if f: X`  ->  the test is duplicated into both branches (tail
    duplication: `if c: P else: Q; Z` == `if c: P; Z else: Q; Z`), and where the flag has just been assigned a constant the
    test is folded.  Brings 'compute a ready flag, act on it afterwards' back to 'act where the flag is known'."""
    changed = 0
    for _o, _f, lst in list(stmt_lists(tree)):
        i = 0
        while i + 1 < len(lst):
            a, b = lst[i], lst[i + 1]
            t = b.test if isinstance(b, ast.If) else None
            if isinstance(t, ast.UnaryOp) and isinstance(t.op, ast.Not):
                t = t.operand
            if isinstance(a, ast.If) and a.orelse and isinstance(t, ast.Name) and not b.orelse and \
                    any(isinstance(n, ast.Name) and n.id == t.id and isinstance(n.ctx, ast.Store) for br in (a.body, a.orelse) for s_ in br for n in ast.walk(s_)) \
                    and not _contains(b.body, (ast.FunctionDef, ast.Lambda, ast.ClassDef)):
                a.body.append(copy.deepcopy(b))
                a.orelse.append(copy.deepcopy(b))
                del lst[i + 1]
                changed += 1
                continue
            i += 1
    # fold `f = <True/False>` immediately followed by `if f: X` / `if not f: X`
    for _o, _f, lst in list(stmt_lists(tree)):
        i = 0
        while i + 1 < len(lst):
            a, b = lst[i], lst[i + 1]
            if isinstance(a, ast.Assign) and len(a.targets) == 1 and isinstance(a.targets[0], ast.Name) and isinstance(a.value, ast.Constant) \
                    and isinstance(a.value.value, bool) and isinstance(b, ast.If):
                t, pol = b.test, True
                if isinstance(t, ast.UnaryOp) and isinstance(t.op, ast.Not):
                    t, pol = t.operand, False
                if isinstance(t, ast.Name) and t.id == a.targets[0].id:
                    taken = b.body if a.value.value == pol else b.orelse
                    lst[i + 1:i + 2] = list(taken)
                    changed += 1
                    continue
            i += 1
    return changed


# ---------------------------------------------------------------------------------------------- pass: multi-item with -> nested
class SplitWith(ast.NodeTransformer):
    """`with A as x, B as y: body`  is by definition  `with A as x: with B as y: body`."""

    def __init__(self):
        self.changed = 0

    def visit_With(self, n):
        self.generic_visit(n)
        if len(n.items) <= 1:
            return n
        self.changed += 1
        inner = n.body
        for it in reversed(n.items[1:]):
            inner = [_loc(ast.With(items=[it], body=inner), n)]
        return _loc(ast.With(items=[n.items[0]], body=inner), n)


# ---------------------------------------------------------------------------------------------- pass: acquire/release -> with
def _is_method_call(stmt, attr):
    return (isinstance(stmt, ast.Expr) and isinstance(stmt.value, ast.Call) and isinstance(stmt.value.func, ast.Attribute)
            and stmt.value.func.attr == attr and not stmt.value.args and not stmt.value.keywords)


def acquire_to_with(tree):
    changed = 0
    for _owner, _field, lst in list(stmt_lists(tree)):
        i = 0
        while i + 1 < len(lst):
            a, t = lst[i], lst[i + 1]
            if _is_method_call(a, "acquire") and isinstance(t, ast.Try) and not t.handlers and not t.orelse \
                    and len(t.finalbody) == 1 and _is_method_call(t.finalbody[0], "release") \
                    and ast.dump(a.value.func.value) == ast.dump(t.finalbody[0].value.func.value) \
                    and is_pure_simple(a.value.func.value):
                w = ast.With(items=[ast.withitem(context_expr=copy.deepcopy(a.value.func.value), optional_vars=None)],
                             body=t.body)
                lst[i:i + 2] = [_loc(w, a)]
                changed += 1
            i += 1
    return changed


# ---------------------------------------------------------------------------------------------- tail-return form
def _contains(stmts, kinds):
    return any(isinstance(n, kinds) for n in iter_own(list(stmts)))


def always_exits(stmts):
    if not stmts:
        return False
    s = stmts[-1]
    if isinstance(s, (ast.Return, ast.Raise)):
        return True
    if isinstance(s, ast.If):
        return always_exits(s.body) and always_exits(s.orelse)
    if isinstance(s, ast.With):
        return always_exits(s.body)
    return False


def tailify(stmts):
    """Equivalent statement list in which every `return` (of this scope) is in tail position; None if impossible."""
    out = []
    for i, s in enumerate(stmts):
        rest = stmts[i + 1:]
        if isinstance(s, ast.Return):
            out.append(s)
            return out
        if not _contains([s], ast.Return):
            out.append(s)
            continue
        if isinstance(s, ast.If):
            body_x, else_x = always_exits(s.body), always_exits(s.orelse)
            if rest and body_x and else_x:
                rest = []
            if rest:
                if body_x:
                    s = _loc(ast.If(test=s.test, body=s.body, orelse=list(s.orelse) + list(rest)), s)
                elif else_x:
                    s = _loc(ast.If(test=s.test, body=list(s.body) + list(rest), orelse=s.orelse), s)
                else:
                    return None
            b = tailify(s.body)
            o = tailify(s.orelse) if s.orelse else []
            if b is None or o is None:
                return None
            out.append(_loc(ast.If(test=s.test, body=b, orelse=o), s))
            return out
        if rest:
            return None
        if isinstance(s, ast.With):
            b = tailify(s.body)
            if b is None:
                return None
            out.append(_loc(ast.With(items=s.items, body=b), s))
            return out
        if isinstance(s, ast.Try):
            if _contains(s.finalbody, ast.Return):
                return None
            if s.orelse and _contains(s.body, ast.Return):
                return None
            b = tailify(s.body)
            hs = []
            for h in s.handlers:
                hb = tailify(h.body)
                if hb is None:
                    return None
                hs.append(_loc(ast.ExceptHandler(type=h.type, name=h.name, body=hb), h))
            o = tailify(s.orelse) if s.orelse else []
            if b is None or o is None:
                return None
            out.append(_loc(ast.Try(body=b, handlers=hs, orelse=o, finalbody=s.finalbody), s))
            return out
        return None  # return inside a loop / match / other compound statement
    return out


def replace_returns(stmts, result):
    """In tail form: `return e` -> `result = e` (or the bare expression when no result is wanted)."""
    out = []
    for s in stmts:
        if isinstance(s, ast.Return):
            if result is not None:
                v = s.value if s.value is not None else ast.Constant(None)
                out.append(_loc(ast.Assign(targets=[ast.Name(id=result, ctx=ast.Store())], value=v), s))
            elif s.value is not None and not isinstance(s.value, (ast.Constant, ast.Name)):
                out.append(_loc(ast.Expr(value=s.value), s))
            else:
                out.append(_loc(ast.Pass(), s))
        elif isinstance(s, ast.If):
            out.append(_loc(ast.If(test=s.test, body=replace_returns(s.body, result) or [_loc(ast.Pass(), s)],
                                   orelse=replace_returns(s.orelse, result)), s))
        elif isinstance(s, ast.With):
            out.append(_loc(ast.With(items=s.items, body=replace_returns(s.body, result)), s))
        elif isinstance(s, ast.Try):
            out.append(_loc(ast.Try(body=replace_returns(s.body, result),
                                    handlers=[_loc(ast.ExceptHandler(type=h.type, name=h.name, body=replace_returns(h.body, result)), h)
                                              for h in s.handlers],
                                    orelse=replace_returns(s.orelse, result), finalbody=s.finalbody), s))
        else:
            out.append(s)
    return out


# ---------------------------------------------------------------------------------------------- inlining
def inlinable_def(h):
    """Structural conditions on the helper itself (independent of its call sites)."""
    if not isinstance(h, ast.FunctionDef) or h.decorator_list:
        return False
    a = h.args
    if a.vararg or a.kwarg:
        return False
    for d in list(a.defaults) + [d for d in a.kw_defaults if d is not None]:
        # a constant, or a module-level name (a function / constant that is bound once: the same object at definition
        # time and at call time)
        if not isinstance(d, (ast.Constant, ast.Name)):
            return False
    for n in iter_own(list(h.body)):
        if isinstance(n, (ast.Yield, ast.YieldFrom, ast.Await)):
            return False
        if isinstance(n, ast.Name) and n.id == h.name:
            return False  # recursive (or rebinding its own name)
        if isinstance(n, ast.Call):
            f = n.func
            nm = f.id if isinstance(f, ast.Name) else f.attr if isinstance(f, ast.Attribute) else None
            if nm in _FRAME_SENSITIVE or nm in ("locals", "vars", "exec", "eval", "super"):
                return False
    for s in nested_scopes(h):
        if h.name in free_names(s):
            return False
    return tailify(list(_strip_doc(h.body))) is not None


def _strip_doc(body):
    if body and isinstance(body[0], ast.Expr) and isinstance(body[0].value, ast.Constant) and isinstance(body[0].value.value, str):
        return body[1:]
    return body


def bind_arguments(h, call):
    """param -> argument expression (defaults filled in); None when the call does not bind statically."""
    a = h.args
    if any(isinstance(x, ast.Starred) for x in call.args) or any(k.arg is None for k in call.keywords):
        return None
    pos = [x.arg for x in a.posonlyargs + a.args]
    kwonly = [x.arg for x in a.kwonlyargs]
    if len(call.args) > len(pos):
        return None
    out = {}
    for p, v in zip(pos, call.args):
        out[p] = v
    posonly = {x.arg for x in a.posonlyargs}
    for k in call.keywords:
        if k.arg in out or k.arg in posonly or k.arg not in pos + kwonly:
            return None
        out[k.arg] = k.value
    defaults = dict(zip(pos[len(pos) - len(a.defaults):], a.defaults))
    for p, d in zip(kwonly, a.kw_defaults):
        if d is not None:
            defaults[p] = d
    for p in pos + kwonly:
        if p not in out:
            if p not in defaults:
                return None
            out[p] = defaults[p]
    return out


class Inliner:
    """Inline calls of helper `h` (a FunctionDef) found in statement position."""

    def __init__(self, tag_counter):
        self.counter = tag_counter

    def expand(self, h, call, want_result, extra_map=None, forbidden_capture=()):
        """-> (statements, result expression or None).  Raises _Bail."""
        binding = bind_arguments(h, call)
        if binding is None:
            raise _Bail("call does not bind statically")
        body = tailify(list(_strip_doc(h.body)))
        if body is None:
            raise _Bail("returns not in tail position")
        k = next(self.counter)
        tag = f"{h.name}__{{}}" if k == 0 else f"{h.name}__{{}}__{k}"
        local_names = bound_names(h)
        rebinds = assigned_anywhere(h) - local_names  # names of enclosing scopes the helper (or its closures) assigns
        mapping = dict(extra_map or {})
        pre = []
        order = [x.arg for x in h.args.posonlyargs + h.args.args + h.args.kwonlyargs]
        # evaluate arguments in call order: positional first, then keywords as written
        call_order = list(call.args) + [kw.value for kw in call.keywords]
        param_of_arg = {id(v): p for p, v in binding.items()}
        direct = {}
        for p in order:
            v = binding[p]
            simple = isinstance(v, ast.Constant) or (isinstance(v, ast.Name) and v.id not in rebinds)
            if simple and not _is_assigned_in(h, p):
                direct[p] = v
        for v in call_order:
            p = param_of_arg.get(id(v))
            if p is None or p in direct:
                continue
            new = tag.format(p)
            mapping[p] = new
            pre.append(_loc(ast.Assign(targets=[ast.Name(id=new, ctx=ast.Store())], value=v), call))
        for p in order:
            if p in direct:
                mapping[p] = direct[p]
            elif p not in mapping:  # default value
                new = tag.format(p)
                mapping[p] = new
                pre.append(_loc(ast.Assign(targets=[ast.Name(id=new, ctx=ast.Store())], value=copy.deepcopy(binding[p])), call))
        for x in local_names:
            if x not in mapping:
                mapping[x] = tag.format(x)
        for x in forbidden_capture:
            if x in free_names(h) and x not in mapping:
                raise _Bail(f"free variable {x} of the helper is shadowed at the call site")
        result = tag.format("result") if want_result else None
        body = copy.deepcopy(body)
        body = [s for s in body if not isinstance(s, (ast.Nonlocal, ast.Global))] if True else body
        r = Renamer(mapping)
        body = [r.visit(s) for s in body]
        body = replace_returns(body, result)
        if want_result and not always_exits(tailify(list(_strip_doc(h.body)))):
            pre.append(_loc(ast.Assign(targets=[ast.Name(id=result, ctx=ast.Store())], value=ast.Constant(None)), call))
        stmts = pre + body
        if not stmts:
            stmts = [_loc(ast.Pass(), call)]
        return stmts, (ast.Name(id=result, ctx=ast.Load()) if want_result else None)


def _is_assigned_in(h, name):
    for n in iter_own(list(h.body)):
        if isinstance(n, ast.Name) and n.id == name and isinstance(n.ctx, (ast.Store, ast.Del)):
            return True
    for s in nested_scopes(h):
        if name in declared(s, ast.Nonlocal):
            return True
    return False


def _call_of(e, names):
    return isinstance(e, ast.Call) and isinstance(e.func, ast.Name) and e.func.id in names


def _site(stmt, names):
    """If `stmt` calls a helper in an inlinable statement position: (call, kind)."""
    if isinstance(stmt, ast.Expr) and _call_of(stmt.value, names):
        return stmt.value, "expr"
    if isinstance(stmt, ast.Assign) and _call_of(stmt.value, names):
        return stmt.value, "assign"
    if isinstance(stmt, ast.AnnAssign) and stmt.value is not None and _call_of(stmt.value, names):
        return stmt.value, "annassign"
    if isinstance(stmt, ast.Return) and stmt.value is not None and _call_of(stmt.value, names):
        return stmt.value, "return"
    if isinstance(stmt, ast.AugAssign):
        # `h(a).field += v`: the base of the target is what Python evaluates first
        e = stmt.target
        while isinstance(e, (ast.Attribute, ast.Subscript)):
            e = e.value
        if _call_of(e, names) and e is not stmt.target:
            return e, "hoist"
    if isinstance(stmt, ast.Expr) and isinstance(stmt.value, ast.Call):
        # `h(a).method(...)`: the receiver is evaluated first
        e = stmt.value.func
        while isinstance(e, (ast.Attribute, ast.Subscript)):
            e = e.value
        if _call_of(e, names) and e is not stmt.value:
            return e, "hoist"
    if isinstance(stmt, ast.If):
        t = stmt.test
        if _call_of(t, names):
            return t, "if"
        if isinstance(t, ast.UnaryOp) and isinstance(t.op, ast.Not) and _call_of(t.operand, names):
            return t.operand, "ifnot"
        # `if h(a) == 0:` / `if h(a) is None and ...:` - the call is the first thing the test evaluates
        first = t
        while True:
            if isinstance(first, ast.BoolOp):
                first = first.values[0]
            elif isinstance(first, ast.Compare):
                first = first.left
            elif isinstance(first, ast.UnaryOp) and isinstance(first.op, ast.Not):
                first = first.operand
            else:
                break
        if first is not t and _call_of(first, names):
            return first, "hoist"
    return None, None


def _name_uses(root, name):
    """(all Name nodes with this id below root, those that are the callee of a call)"""
    alln, callees = [], set()
    for n in ast.walk(root):
        if isinstance(n, ast.Call) and isinstance(n.func, ast.Name) and n.func.id == name:
            callees.add(id(n.func))
        if isinstance(n, ast.Name) and n.id == name:
            alln.append(n)
    return alln, callees


def _scopes_between(root, target_stmt_list):
    """Function/lambda/class scopes (excluding root) that enclose the given list object."""
    path = []

    def rec(node, chain):
        for n in ast.iter_child_nodes(node):
            ch = chain + [n] if isinstance(n, _SCOPE_NODES) else chain
            for field in ("body", "orelse", "finalbody"):
                if getattr(n, field, None) is target_stmt_list:
                    path.extend(ch)
                    return True
            if rec(n, ch):
                return True
        return False
    for field in ("body", "orelse", "finalbody"):
        if getattr(root, field, None) is target_stmt_list:
            return []
    rec(root, [])
    return path


def inline_helpers(container, candidates, counter, is_module=False):
    """Inline every call of the helper defs `candidates` (children of `container`.body) inside container, then drop
    the defs.  All-or-nothing per helper.  Returns number of helpers inlined."""
    done = 0
    inl = Inliner(counter)
    for h in candidates:
        if h not in container.body or not inlinable_def(h):
            continue
        name = h.name
        # the name must denote this def everywhere: bound once in the container, never rebound in nested scopes
        rebound = sum(1 for n in iter_own(list(container.body)) if (isinstance(n, _FUNC_NODES + (ast.ClassDef,)) and n.name == name)
                      or (isinstance(n, ast.Name) and n.id == name and isinstance(n.ctx, (ast.Store, ast.Del))))
        if rebound != 1:
            continue
        uses, callee_ids = _name_uses(container, name)
        uses = [u for u in uses if not any(u is x for x in ast.walk(h))]
        if not uses or any(id(u) not in callee_ids for u in uses):
            continue  # escapes as a value (thread target, callback, returned, exported) or unused
        if is_module and _exported(container, name):
            continue
        shadowing = False
        for s in ast.walk(container):
            if isinstance(s, _SCOPE_NODES) and s is not h and name in bound_names(s) and not (s is container):
                shadowing = True
        if shadowing:
            continue
        fv = free_names(h)
        # plan all sites first
        plan = []
        ok = True
        for owner, field, lst in stmt_lists(container):
            if any(owner is x for x in ast.walk(h)):
                continue
            for idx, st in enumerate(lst):
                call, kind = _site(st, {name})
                n_calls = sum(1 for n in _shallow_walk(st) if _call_of(n, {name}))
                if call is None:
                    if n_calls:
                        ok = False
                    continue
                if n_calls != 1:
                    ok = False
                    continue
                plan.append((lst, st, call, kind))
        if not ok or not plan:
            continue
        try:
            repl = []
            for lst, st, call, kind in plan:
                between = _scopes_between(container, lst)
                shadow = set()
                for sc in between:
                    shadow |= bound_names(sc)
                if any(isinstance(sc, (ast.ClassDef, ast.Lambda)) or not isinstance(sc, _FUNC_NODES) for sc in between):
                    raise _Bail("call site inside a class body / comprehension")
                bad = (fv & shadow)
                if bad:
                    raise _Bail(f"free variables {sorted(bad)} are shadowed at a call site")
                want = kind != "expr"
                stmts, res = inl.expand(h, call, want)
                if kind == "assign":
                    stmts.append(_loc(ast.Assign(targets=st.targets, value=res), st))
                elif kind == "annassign":
                    stmts.append(_loc(ast.AnnAssign(target=st.target, annotation=st.annotation, value=res, simple=st.simple), st))
                elif kind == "return":
                    stmts.append(_loc(ast.Return(value=res), st))
                elif kind == "if":
                    stmts.append(_loc(ast.If(test=res, body=st.body, orelse=st.orelse), st))
                elif kind == "ifnot":
                    stmts.append(_loc(ast.If(test=ast.UnaryOp(op=ast.Not(), operand=res), body=st.body, orelse=st.orelse), st))
                elif kind == "hoist":
                    class _Sub(ast.NodeTransformer):
                        def visit_Call(self, n, _c=call, _r=res):
                            if n is _c:
                                return ast.copy_location(_r, n)
                            return self.generic_visit(n)
                    stmts.append(_Sub().visit(st))
                # nonlocal declarations needed in the receiving function
                need_nl = set()
                if between:
                    recv = between[-1]
                    writes = {x for x in assigned_anywhere(h) if x in fv}
                    need_nl = {x for x in writes if x not in declared(recv, ast.Nonlocal) and x not in declared(recv, ast.Global)}
                    if is_module and need_nl:
                        raise _Bail("helper writes module globals")
                elif is_module:
                    pass
                repl.append((lst, st, stmts, between[-1] if between else None, need_nl))
        except _Bail:
            continue
        for lst, st, stmts, recv, need_nl in repl:
            i = next(j for j, x in enumerate(lst) if x is st)
            lst[i:i + 1] = stmts
            if recv is not None and need_nl:
                pos = 1 if (recv.body and isinstance(recv.body[0], ast.Expr) and isinstance(recv.body[0].value, ast.Constant)
                            and isinstance(recv.body[0].value.value, str)) else 0
                recv.body.insert(pos, _loc(ast.Nonlocal(names=sorted(need_nl)), recv.body[0]))
        container.body.remove(h)
        if not container.body:
            container.body.append(ast.Pass())
        done += 1
    return done


def _shallow_walk(stmt):
    """Nodes of a statement excluding nested statements' bodies (headers only), but including nested expressions."""
    stack = [stmt]
    first = True
    while stack:
        n = stack.pop()
        yield n
        for f, v in ast.iter_fields(n):
            if f in ("body", "orelse", "finalbody", "handlers", "cases") and isinstance(n, ast.stmt) and not isinstance(n, ast.Expr):
                if isinstance(v, list) and v and isinstance(v[0], (ast.stmt, ast.ExceptHandler, ast.match_case)):
                    continue
            if isinstance(v, ast.AST):
                stack.append(v)
            elif isinstance(v, list):
                stack.extend(x for x in v if isinstance(x, ast.AST))


def _exported(module, name):
    for n in module.body:
        if isinstance(n, ast.Assign) and any(isinstance(t, ast.Name) and t.id == "__all__" for t in n.targets):
            if any(isinstance(c, ast.Constant) and c.value == name for c in ast.walk(n.value)):
                return True
    return False


def inline_closures(tree, counter):
    """Inline non-escaping helper defs nested in functions (to a fixed point)."""
    total = 0
    for _ in range(6):
        n = 0
        for f in [x for x in ast.walk(tree) if isinstance(x, _FUNC_NODES)]:
            cands = [s for s in f.body if isinstance(s, ast.FunctionDef)]
            if cands:
                # the body of a thread (a closure handed over as `target=`) keeps the closures it calls: which code runs per
                # item on a worker is a unit the engine rules reason about, whichever way the source draws the line
                targets = {k.value.id for c_ in ast.walk(f) if isinstance(c_, ast.Call) for k in c_.keywords
                           if k.arg == "target" and isinstance(k.value, ast.Name)}
                if targets:
                    in_target = {n_.func.id for s in cands if s.name in targets for n_ in ast.walk(s)
                                 if isinstance(n_, ast.Call) and isinstance(n_.func, ast.Name)}
                    cands = [s for s in cands if s.name not in in_target]
                n += inline_helpers(f, cands, counter) if cands else 0
        total += n
        if not n:
            break
    return total


# ---------------------------------------------------------------------------------------------- pass: state objects -> variables
def _record_class_fields(cls):
    """Fields of a record-like class: {'field': default expr | None}, plus the __init__ def (or None).
    None if the class is anything more than a record."""
    if cls.bases and not all(isinstance(b, ast.Name) and b.id == "object" for b in cls.bases):
        return None
    if cls.keywords:
        return None
    deco = [d.func if isinstance(d, ast.Call) else d for d in cls.decorator_list]
    is_dc = any((isinstance(d, ast.Name) and d.id == "dataclass") or (isinstance(d, ast.Attribute) and d.attr == "dataclass") for d in deco)
    if cls.decorator_list and not is_dc:
        return None
    fields, init = {}, None
    for s in _strip_doc(cls.body):
        if isinstance(s, ast.Pass):
            continue
        if isinstance(s, ast.Assign) and len(s.targets) == 1 and isinstance(s.targets[0], ast.Name) and s.targets[0].id == "__slots__":
            continue
        if isinstance(s, ast.AnnAssign) and isinstance(s.target, ast.Name) and is_dc:
            v_ = s.value
            if isinstance(v_, ast.Call) and ((isinstance(v_.func, ast.Name) and v_.func.id == "field") or
                                             (isinstance(v_.func, ast.Attribute) and v_.func.attr == "field")) and not v_.args:
                kw_ = {k.arg: k.value for k in v_.keywords}
                if "default" in kw_ and isinstance(kw_["default"], ast.Constant):
                    v_ = kw_["default"]
                elif "default_factory" in kw_ and isinstance(kw_["default_factory"], (ast.Name, ast.Attribute)):
                    v_ = ast.copy_location(ast.Call(func=copy.deepcopy(kw_["default_factory"]), args=[], keywords=[]), v_)  # a fresh value per instance
                elif not (set(kw_) & {"default", "default_factory"}):
                    v_ = None
                else:
                    return None
            elif v_ is not None and not isinstance(v_, ast.Constant):
                return None
            fields[s.target.id] = v_
            continue
        if isinstance(s, ast.FunctionDef) and s.name == "__init__" and not is_dc and not s.decorator_list:
            init = s
            continue
        return None
    if is_dc:
        return ("dc", fields, None)
    if init is None:
        return None
    ps = params_of(init)
    if not ps or init.args.vararg or init.args.kwarg:
        return None
    selfn = ps[0]
    for s in _strip_doc(init.body):
        if not (isinstance(s, ast.Assign) and len(s.targets) == 1 and isinstance(s.targets[0], ast.Attribute)
                and isinstance(s.targets[0].value, ast.Name) and s.targets[0].value.id == selfn):
            return None
        if any(isinstance(n, ast.Name) and n.id == selfn for n in ast.walk(s.value)):
            return None
        if any(isinstance(n, (ast.Call, ast.Lambda, ast.Yield, ast.Await)) for n in ast.walk(s.value)) and \
                not all(isinstance(n, ast.Call) and isinstance(n.func, (ast.Name, ast.Attribute)) for n in ast.walk(s.value) if isinstance(n, ast.Call)):
            return None
        fields[s.targets[0].attr] = s.value
    return ("init", fields, init)


def _module_classes(tree):
    return {s.name: s for s in tree.body if isinstance(s, ast.ClassDef)}


def scalarise_state_objects(tree):
    """`state = _State()` (record-like class, SimpleNamespace, dict literal with constant keys, one-element list) whose
    every use is `state.field` / `state["key"]` / `state[0]`  ->  one plain variable per field."""
    changed = 0
    mod_classes = _module_classes(tree)
    for f in [x for x in ast.walk(tree) if isinstance(x, _FUNC_NODES)]:
        local_classes = {s.name: s for s in f.body if isinstance(s, ast.ClassDef)}
        for st in list(f.body):
            if not (isinstance(st, ast.Assign) and len(st.targets) == 1 and isinstance(st.targets[0], ast.Name)):
                continue
            var = st.targets[0].id
            init_stmts = _state_fields(st.value, var, local_classes, mod_classes, st)
            if init_stmts is None:
                continue
            kind, fields, assigns = init_stmts
            # the variable is bound exactly once in f and nowhere shadowed; every use is a field access
            nbind = sum(1 for n in iter_own(list(f.body)) if isinstance(n, ast.Name) and n.id == var and isinstance(n.ctx, (ast.Store, ast.Del)))
            if nbind != 1 or var in params_of(f):
                continue
            if any(isinstance(s, _SCOPE_NODES) and var in bound_names(s) for s in ast.walk(f) if s is not f):
                continue
            uses = [n for n in ast.walk(f) if isinstance(n, ast.Name) and n.id == var and n is not st.targets[0]]
            parents = {}
            for p in ast.walk(f):
                for c in ast.iter_child_nodes(p):
                    parents[id(c)] = p
            ok = True
            accesses = []
            for u in uses:
                p = parents.get(id(u))
                if kind in ("attr",) and isinstance(p, ast.Attribute) and p.value is u and p.attr in fields:
                    accesses.append((p, p.attr))
                elif kind == "key" and isinstance(p, ast.Subscript) and p.value is u and isinstance(p.slice, ast.Constant) \
                        and p.slice.value in fields:
                    accesses.append((p, p.slice.value))
                else:
                    ok = False
                    break
            if not ok or not accesses:
                continue
            # a deleted field, or use inside a class body / comprehension-free check
            if any(isinstance(p.ctx, ast.Del) for p, _ in accesses):
                continue
            names = {k: f"{var}__{k}" for k in fields}
            taken = set()
            for s in ast.walk(f):
                if isinstance(s, ast.Name):
                    taken.add(s.id)
            if any(v in taken for v in names.values()):
                continue
            # rewrite
            repl = {id(p): names[k] for p, k in accesses}

            class R(ast.NodeTransformer):
                def visit_Attribute(self, n):
                    if id(n) in repl:
                        return ast.copy_location(ast.Name(id=repl[id(n)], ctx=n.ctx), n)
                    return self.generic_visit(n)

                def visit_Subscript(self, n):
                    if id(n) in repl:
                        return ast.copy_location(ast.Name(id=repl[id(n)], ctx=n.ctx), n)
                    return self.generic_visit(n)
            i = f.body.index(st)
            new_assigns = [_loc(ast.Assign(targets=[ast.Name(id=names[k], ctx=ast.Store())], value=v), st) for k, v in assigns]
            f.body[i:i + 1] = new_assigns
            R().visit(f)
            # nonlocal declarations in nested functions that store a field
            for g in [x for x in ast.walk(f) if isinstance(x, _FUNC_NODES) and x is not f]:
                stores = {n.id for n in iter_own(list(g.body)) if isinstance(n, ast.Name) and isinstance(n.ctx, ast.Store)
                          and n.id in names.values()}
                stores -= declared(g, ast.Nonlocal)
                if stores:
                    pos = 1 if (g.body and isinstance(g.body[0], ast.Expr) and isinstance(g.body[0].value, ast.Constant)
                                and isinstance(g.body[0].value.value, str)) else 0
                    g.body.insert(pos, _loc(ast.Nonlocal(names=sorted(stores)), g.body[0]))
            # a local record class that is no longer referenced can go
            for cname, c in list(local_classes.items()):
                if c in f.body and not any(isinstance(n, ast.Name) and n.id == cname for n in ast.walk(f)):
                    f.body.remove(c)
            changed += 1
    # module-level record classes that are no longer referenced anywhere in the module
    for cname, c in mod_classes.items():
        if c in tree.body and _record_class_fields(c) is not None and cname.startswith("_") \
                and not any(isinstance(n, ast.Name) and n.id == cname for n in ast.walk(tree)):
            tree.body.remove(c)
    return changed


def _state_fields(value, var, local_classes, mod_classes, st):
    """-> (kind, field set, [(field, init expr)]) or None"""
    if isinstance(value, ast.Dict) and value.keys and all(isinstance(k, ast.Constant) and isinstance(k.value, (str, int)) for k in value.keys):
        ks = [k.value for k in value.keys]
        if len(set(ks)) != len(ks):
            return None
        return "key", set(ks), list(zip(ks, value.values))
    if isinstance(value, ast.List) and len(value.elts) == 1 and not isinstance(value.elts[0], ast.Starred):
        return "key", {0}, [(0, value.elts[0])]
    if not isinstance(value, ast.Call):
        return None
    fn = value.func
    fname = fn.id if isinstance(fn, ast.Name) else fn.attr if isinstance(fn, ast.Attribute) else None
    if fname == "SimpleNamespace" and not value.args and all(k.arg for k in value.keywords):
        return "attr", {k.arg for k in value.keywords}, [(k.arg, k.value) for k in value.keywords]
    if fname == "dict" and isinstance(fn, ast.Name) and not value.args and value.keywords and all(k.arg for k in value.keywords):
        return "key", {k.arg for k in value.keywords}, [(k.arg, k.value) for k in value.keywords]
    if not isinstance(fn, ast.Name):
        return None
    cls = local_classes.get(fn.id) or mod_classes.get(fn.id)
    if cls is None:
        return None
    rec = _record_class_fields(cls)
    if rec is None:
        return None
    mode, fields, init = rec
    if mode == "dc":
        if value.args:
            return None
        given = {k.arg: k.value for k in value.keywords if k.arg}
        if len(given) != len(value.keywords) or any(k not in fields for k in given):
            return None
        out = []
        for k, d in fields.items():
            v = given.get(k, d)
            if v is None:
                return None
            out.append((k, copy.deepcopy(v)))
        return "attr", set(fields), out
    fake = ast.FunctionDef(name="__init__", args=copy.deepcopy(init.args), body=init.body, decorator_list=[], returns=None)
    fake.args.args = fake.args.args[1:] if not fake.args.posonlyargs else fake.args.args
    if init.args.posonlyargs:
        fake.args.posonlyargs = fake.args.posonlyargs[1:]
    binding = bind_arguments(fake, value)
    if binding is None:
        return None
    if any(not (isinstance(v, ast.Constant) or isinstance(v, ast.Name)) for v in binding.values()):
        # argument expressions with effects would be re-ordered/duplicated by substitution
        if any(sum(1 for n in ast.walk(e) if isinstance(n, ast.Name) and n.id == p) > 1 for p in binding for e in fields.values()):
            return None
    out = []
    for k, e in fields.items():
        out.append((k, Renamer({p: v for p, v in binding.items()}).visit(copy.deepcopy(e))))
    return "attr", set(fields), out


# ---------------------------------------------------------------------------------------------- pass: objects -> closures
_ALLOWED_DUNDERS = {"__init__", "__call__", "__enter__", "__exit__"}


class _SelfRewriter(ast.NodeTransformer):
    """`self.attr` -> Name(prefix + attr) inside one method (self must only ever occur in that form)."""

    def __init__(self, selfname, names):
        self.s = selfname
        self.names = names  # attr -> new variable name

    def visit_Attribute(self, n):
        if isinstance(n.value, ast.Name) and n.value.id == self.s:
            if n.attr not in self.names:
                raise _Bail(f"unknown attribute {n.attr}")
            return ast.copy_location(ast.Name(id=self.names[n.attr], ctx=n.ctx), n)
        return self.generic_visit(n)

    def visit_Name(self, n):
        if n.id == self.s:
            raise _Bail("self escapes")
        return n


def _class_shape(cls):
    """-> dict(methods, fields) for a class that is just state + methods, else None."""
    if cls.decorator_list or cls.keywords:
        return None
    if cls.bases and not all(isinstance(b, ast.Name) and b.id == "object" for b in cls.bases):
        return None
    methods = {}
    for st in _strip_doc(cls.body):
        if isinstance(st, ast.Pass):
            continue
        if isinstance(st, ast.Assign) and len(st.targets) == 1 and isinstance(st.targets[0], ast.Name) and st.targets[0].id == "__slots__":
            continue
        if isinstance(st, ast.AnnAssign) and st.value is None:
            continue
        if isinstance(st, ast.FunctionDef) and not st.decorator_list:
            if st.name.startswith("__") and st.name.endswith("__") and st.name not in _ALLOWED_DUNDERS:
                return None
            ps = st.args.posonlyargs + st.args.args
            if not ps or (st.name == "__init__" and (st.args.vararg or st.args.kwarg)):
                return None
            methods[st.name] = st
            continue
        return None
    if not methods:
        return None
    fields = set()
    for m in methods.values():
        selfn = (m.args.posonlyargs + m.args.args)[0].arg
        for sc in [x for x in ast.walk(m) if isinstance(x, _SCOPE_NODES) and x is not m]:
            if selfn in bound_names(sc):
                return None
        for n in ast.walk(m):
            if isinstance(n, ast.Attribute) and isinstance(n.value, ast.Name) and n.value.id == selfn and isinstance(n.ctx, (ast.Store, ast.Del)):
                if isinstance(n.ctx, ast.Del):
                    return None
                fields.add(n.attr)
    if fields & set(methods):
        return None
    return {"methods": methods, "fields": fields}


def _method_to_def(m, newname, names, field_vars):
    """Method -> plain def over the variables `names` (attr -> variable)."""
    ps = m.args.posonlyargs + m.args.args
    selfn = ps[0].arg
    f = copy.deepcopy(m)
    if f.args.posonlyargs:
        f.args.posonlyargs = f.args.posonlyargs[1:]
    else:
        f.args.args = f.args.args[1:]
    f.name = newname
    f.body = [_SelfRewriter(selfn, names).visit(st) for st in f.body]
    if any(selfn == x.arg for x in f.args.posonlyargs + f.args.args + f.args.kwonlyargs):
        raise _Bail("self shadowed")
    _add_nonlocals(f, field_vars)
    return f


def _add_nonlocals(fn, varnames, include_self=True):
    """Insert `nonlocal` for the given variables in fn (if include_self) and in every function nested in it that
    stores one of them."""
    for g in [x for x in ast.walk(fn) if isinstance(x, _FUNC_NODES)]:
        if g is fn and not include_self:
            continue
        stores = {n.id for n in iter_own(list(g.body)) if isinstance(n, ast.Name) and isinstance(n.ctx, ast.Store) and n.id in varnames}
        stores -= declared(g, ast.Nonlocal)
        if stores:
            pos = 1 if (g.body and isinstance(g.body[0], ast.Expr) and isinstance(g.body[0].value, ast.Constant)
                        and isinstance(g.body[0].value.value, str)) else 0
            g.body.insert(pos, _loc(ast.Nonlocal(names=sorted(stores)), g.body[0]))


def _hoist_construct_and_call(tree, classnames):
    """`return K(a).m(b)` / `x = K(a).m(b)` / `K(a).m(b)`  ->  `K__obj = K(a)` + the statement on K__obj."""
    n_done = 0
    for _o, _f, lst in list(stmt_lists(tree)):
        i = 0
        while i < len(lst):
            st = lst[i]
            v = st.value if isinstance(st, (ast.Return, ast.Assign, ast.Expr, ast.AnnAssign)) else None
            if isinstance(v, ast.Call) and isinstance(v.func, ast.Attribute) and isinstance(v.func.value, ast.Call) \
                    and isinstance(v.func.value.func, ast.Name) and v.func.value.func.id in classnames:
                k = v.func.value.func.id
                tmp = f"{k.strip('_').lower()}_obj"
                ctor = v.func.value
                v.func.value = ast.copy_location(ast.Name(id=tmp, ctx=ast.Load()), ctor)
                lst.insert(i, _loc(ast.Assign(targets=[ast.Name(id=tmp, ctx=ast.Store())], value=ctor), st))
                i += 1
                n_done += 1
            i += 1
    return n_done


def _ensure_contextmanager_import(tree):
    for st in tree.body:
        if isinstance(st, ast.ImportFrom) and st.module == "contextlib" and any(a.name == "contextmanager" and not a.asname for a in st.names):
            return
    imp = ast.ImportFrom(module="contextlib", names=[ast.alias(name="contextmanager", asname=None)], level=0)
    pos = 0
    for i, st in enumerate(tree.body):
        if isinstance(st, (ast.Import, ast.ImportFrom)) or (isinstance(st, ast.Expr) and isinstance(st.value, ast.Constant)):
            pos = i + 1
    ref = tree.body[pos - 1] if pos else tree.body[0]
    tree.body.insert(pos, _loc(imp, ref))


def objects_to_closures(tree, counter):
    changed = 0
    classes = {c.name: c for c in tree.body if isinstance(c, ast.ClassDef)}
    shapes = {k: _class_shape(c) for k, c in classes.items()}
    shapes = {k: v for k, v in shapes.items() if v}
    if not shapes:
        return 0
    _hoist_construct_and_call(tree, set(shapes))
    funcs = [x for x in ast.walk(tree) if isinstance(x, _FUNC_NODES)]
    for kname, shape in shapes.items():
        cls = classes[kname]
        refs = [n for n in ast.walk(tree) if isinstance(n, ast.Name) and n.id == kname]
        is_cm = "__enter__" in shape["methods"] or "__exit__" in shape["methods"]
        if is_cm and len(refs) > 1:
            # a context-manager class may be entered at several places: every reference must be `with K(...)`
            ctxs = {id(it.context_expr.func) for w_ in ast.walk(tree) if isinstance(w_, ast.With) for it in w_.items
                    if isinstance(it.context_expr, ast.Call) and isinstance(it.context_expr.func, ast.Name)}
            if all(id(r_) in ctxs for r_ in refs) and shape["methods"].keys() <= {"__init__", "__enter__", "__exit__"}:
                try:
                    if _delegating_cm(tree, cls, shape, None):
                        changed += 1
                except _Bail:
                    pass
            continue
        if len(refs) != 1 or not isinstance(refs[0].ctx, ast.Load):
            continue
        ref = refs[0]
        if any(ref is x for x in ast.walk(cls)):
            continue
        try:
            if is_cm:
                ok = _cm_class_to_generator(tree, cls, shape, ref, funcs)
            else:
                ok = _instance_to_closures(tree, cls, shape, ref, funcs, counter)
        except _Bail:
            ok = False
        if ok:
            changed += 1
    return changed


def _instance_to_closures(tree, cls, shape, ref, funcs, counter):
    kname = cls.name
    # the construction site: `v = K(args)` at the top level of some function body
    site = None
    for f in funcs:
        if any(f is x for x in ast.walk(cls)):
            continue
        for st in f.body:
            if isinstance(st, ast.Assign) and len(st.targets) == 1 and isinstance(st.targets[0], ast.Name) \
                    and isinstance(st.value, ast.Call) and st.value.func is ref:
                site = (f, st)
    if site is None:
        return False
    f, st = site
    var = st.targets[0].id
    methods, fields = shape["methods"], shape["fields"]
    nbind = sum(1 for n in iter_own(list(f.body)) if isinstance(n, ast.Name) and n.id == var and isinstance(n.ctx, (ast.Store, ast.Del)))
    if nbind != 1 or var in params_of(f):
        return False
    if any(isinstance(sc, _SCOPE_NODES) and var in bound_names(sc) for sc in ast.walk(f) if sc is not f):
        return False
    names = {a: f"{var}__{a}" for a in fields}
    for mname in methods:
        if mname == "__init__":
            continue
        names[mname] = f"{var}__{'call' if mname == '__call__' else mname}"
    if len(set(names.values())) != len(names):
        return False
    taken = {n.id for n in ast.walk(f) if isinstance(n, ast.Name)} | {n.id for m in methods.values() for n in ast.walk(m) if isinstance(n, ast.Name)}
    if set(names.values()) & taken:
        return False
    # every use of the instance variable is a field/method access (or the bare object when it is callable)
    parents = {}
    for pnode in ast.walk(f):
        for c in ast.iter_child_nodes(pnode):
            parents[id(c)] = pnode
    uses = [n for n in ast.walk(f) if isinstance(n, ast.Name) and n.id == var and n is not st.targets[0]]
    repl = {}
    for u in uses:
        pnode = parents.get(id(u))
        if isinstance(pnode, ast.Attribute) and pnode.value is u and pnode.attr in names:
            if pnode.attr in methods and not isinstance(pnode.ctx, ast.Load):
                return False
            repl[id(pnode)] = names[pnode.attr]
        elif "__call__" in methods and isinstance(u.ctx, ast.Load):
            repl[id(u)] = names["__call__"]
        else:
            return False
    # globals used by the methods must not be captured by locals of the receiving function
    fbound = bound_names(f)
    field_vars = set(names[a] for a in fields)
    new_defs = []
    for mname, m in methods.items():
        if mname == "__init__":
            continue
        d = _method_to_def(m, names[mname], names, field_vars)
        if (free_names(d) - set(names.values())) & fbound:
            return False
        new_defs.append(_loc(d, m))
    init_stmts = []
    if "__init__" in methods:
        init = methods["__init__"]
        selfn = (init.args.posonlyargs + init.args.args)[0].arg
        h = copy.deepcopy(init)
        if h.args.posonlyargs:
            h.args.posonlyargs = h.args.posonlyargs[1:]
        else:
            h.args.args = h.args.args[1:]
        h.name = f"{var}__init"
        h.body = [_SelfRewriter(selfn, names).visit(x) for x in h.body]
        if not inlinable_def(h):
            return False
        if (free_names(h) - set(names.values())) & (fbound - set(params_of(f)) - {var}) - {a.id for a in ast.walk(st.value) if isinstance(a, ast.Name)}:
            pass
        ident = {v: v for v in names.values()}
        init_stmts, _ = Inliner(counter).expand(h, st.value, False, extra_map=ident)
    assigned_in_init = {n.id for x in init_stmts for n in ast.walk(x) if isinstance(n, ast.Name) and isinstance(n.ctx, ast.Store)}
    if not field_vars <= assigned_in_init:
        return False  # a field that only a method creates would need an unbound nonlocal
    i = f.body.index(st)
    f.body[i:i + 1] = init_stmts + new_defs

    class R(ast.NodeTransformer):
        def visit_Attribute(self, n):
            if id(n) in repl:
                return ast.copy_location(ast.Name(id=repl[id(n)], ctx=n.ctx), n)
            return self.generic_visit(n)

        def visit_Name(self, n):
            if id(n) in repl:
                return ast.copy_location(ast.Name(id=repl[id(n)], ctx=n.ctx), n)
            return n
    R().visit(f)
    _add_nonlocals(f, field_vars, include_self=False)
    tree.body.remove(cls)
    return True


def _delegating_cm(tree, cls, shape, withs):
    """class K:  __enter__: self.t = CM(...); return E(self.t.__enter__())   __exit__: return self.t.__exit__(a, b, c)
    is  `with CM(...) as v: yield E(v)`  as a generator-based context manager.  -> True (converted) / None (not this shape)."""
    methods = shape["methods"]
    if set(methods) - {"__init__", "__enter__", "__exit__"}:
        return None
    en, ex = methods["__enter__"], methods["__exit__"]
    sx = (ex.args.posonlyargs + ex.args.args)[0].arg
    exp = [a.arg for a in (ex.args.posonlyargs + ex.args.args)][1:]
    xb = _strip_doc(ex.body)
    if len(exp) != 3 or len(xb) != 1 or not isinstance(xb[0], (ast.Return, ast.Expr)):
        return None
    xc = xb[0].value
    if not (isinstance(xc, ast.Call) and isinstance(xc.func, ast.Attribute) and xc.func.attr == "__exit__" and not xc.keywords
            and isinstance(xc.func.value, ast.Attribute) and isinstance(xc.func.value.value, ast.Name) and xc.func.value.value.id == sx
            and [a.id if isinstance(a, ast.Name) else None for a in xc.args] == exp):
        return None
    field = xc.func.value.attr
    se = (en.args.posonlyargs + en.args.args)[0].arg
    eb = list(_strip_doc(en.body))
    if len(eb) != 2 or not (isinstance(eb[0], ast.Assign) and len(eb[0].targets) == 1 and isinstance(eb[0].targets[0], ast.Attribute)
                            and isinstance(eb[0].targets[0].value, ast.Name) and eb[0].targets[0].value.id == se and eb[0].targets[0].attr == field):
        return None
    if not isinstance(eb[1], ast.Return) or eb[1].value is None:
        return None
    if any(isinstance(n, ast.Name) and n.id == se for n in ast.walk(eb[0].value)):
        return None
    enters = [n for n in ast.walk(eb[1].value) if isinstance(n, ast.Call) and isinstance(n.func, ast.Attribute) and n.func.attr == "__enter__"
              and isinstance(n.func.value, ast.Attribute) and isinstance(n.func.value.value, ast.Name) and n.func.value.value.id == se
              and n.func.value.attr == field and not n.args and not n.keywords]
    selfs = [n for n in ast.walk(eb[1].value) if isinstance(n, ast.Name) and n.id == se]
    if len(enters) != 1 or len(selfs) != 1:
        return None
    if "__init__" in methods:
        init = methods["__init__"]
        if len(params_of(init)) != 1:
            return None
        for st in _strip_doc(init.body):
            if not (isinstance(st, ast.Assign) and isinstance(st.value, ast.Constant)):
                return None
    var = f"{cls.name.strip('_').lower()}__entered"
    yexpr = copy.deepcopy(eb[1].value)

    class R(ast.NodeTransformer):
        def visit_Call(self, n):
            if isinstance(n.func, ast.Attribute) and n.func.attr == "__enter__" and isinstance(n.func.value, ast.Attribute) \
                    and isinstance(n.func.value.value, ast.Name) and n.func.value.value.id == se:
                return ast.copy_location(ast.Name(id=var, ctx=ast.Load()), n)
            return self.generic_visit(n)
    yexpr = R().visit(yexpr)
    w = ast.With(items=[ast.withitem(context_expr=copy.deepcopy(eb[0].value), optional_vars=ast.Name(id=var, ctx=ast.Store()))],
                 body=[ast.Expr(value=ast.Yield(value=yexpr))])
    gen = ast.FunctionDef(name=cls.name, args=ast.arguments(posonlyargs=[], args=[], vararg=None, kwonlyargs=[], kw_defaults=[], kwarg=None, defaults=[]),
                          body=[w], decorator_list=[ast.Name(id="contextmanager", ctx=ast.Load())], returns=None, type_params=[])
    _loc(gen, cls)
    tree.body[tree.body.index(cls)] = gen
    _ensure_contextmanager_import(tree)
    return True


_CM_FROM_CLASS = {}   # id(module tree) -> names of context-manager classes rewritten as generator functions


def _specialise_exit(stmts, params, present):
    """The body of `__exit__(self, et, ev, tb)` for a block left by an exception (present) / normally: tests of the
    arguments against None (and the truth of the exception type) are decided, decided `if`s folded. None when the
    arguments are used in any other way."""
    et = params[0]

    def decide(t):
        if isinstance(t, ast.Compare) and len(t.ops) == 1 and isinstance(t.left, ast.Name) and t.left.id in params \
                and isinstance(t.comparators[0], ast.Constant) and t.comparators[0].value is None:
            if isinstance(t.ops[0], ast.IsNot):
                return present
            if isinstance(t.ops[0], ast.Is):
                return not present
        if isinstance(t, ast.Name) and t.id == et:
            return present
        if isinstance(t, ast.UnaryOp) and isinstance(t.op, ast.Not):
            d = decide(t.operand)
            return None if d is None else not d
        return None

    def rec(lst):
        out = []
        for st in lst:
            if isinstance(st, ast.If):
                d = decide(st.test)
                if d is not None:
                    out += rec(st.body if d else st.orelse)
                    continue
                out.append(_loc(ast.If(test=st.test, body=rec(st.body) or [_loc(ast.Pass(), st)], orelse=rec(st.orelse)), st))
            elif isinstance(st, ast.Try):
                out.append(_loc(ast.Try(body=rec(st.body), handlers=[_loc(ast.ExceptHandler(type=h.type, name=h.name, body=rec(h.body)), h)
                                                                     for h in st.handlers],
                                        orelse=rec(st.orelse), finalbody=rec(st.finalbody)), st))
            elif isinstance(st, ast.With):
                out.append(_loc(ast.With(items=st.items, body=rec(st.body)), st))
            else:
                out.append(st)
        return out
    res = rec(copy.deepcopy(list(stmts)))
    if any(isinstance(n, ast.Name) and n.id in params for x in res for n in ast.walk(x)):
        return None
    return res


def _cm_class_to_generator(tree, cls, shape, ref, funcs):
    """class K: __init__/__enter__/__exit__ (+ helpers), used only as `with K(args):`  ->  @contextmanager def K."""
    methods, fields = shape["methods"], shape["fields"]
    if "__enter__" not in methods or "__exit__" not in methods or "__call__" in methods:
        return False
    # the only reference is the context expression of a with statement without `as`
    site = None
    for w in ast.walk(tree):
        if isinstance(w, ast.With):
            for it in w.items:
                if isinstance(it.context_expr, ast.Call) and it.context_expr.func is ref:
                    site = (w, it)
    if site is None:
        return False
    deleg = _delegating_cm(tree, cls, shape, [w_ for w_ in ast.walk(tree) if isinstance(w_, ast.With)])
    if deleg is not None:
        return deleg
    if site[1].optional_vars is not None:
        return False
    ex = methods["__exit__"]
    ex_params = [a.arg for a in (ex.args.posonlyargs + ex.args.args)][1:]
    if len(ex_params) != 3 or ex.args.kwonlyargs:
        return False
    uses_exc = any(isinstance(n, ast.Name) and n.id in ex_params for n in iter_own(list(ex.body)))
    if not uses_exc:
        for n in iter_own(list(ex.body)):
            if isinstance(n, ast.Return) and n.value is not None and not (isinstance(n.value, ast.Constant) and not n.value.value):
                return False
    for sc in nested_scopes(ex):
        if set(ex_params) & free_names(sc):
            return False
    en = methods["__enter__"]
    if len(en.args.posonlyargs + en.args.args) != 1 or en.args.kwonlyargs:
        return False
    kname = cls.name
    names = {a: f"{kname.strip('_').lower()}__{a}" for a in fields}
    for mname in methods:
        if mname not in ("__init__", "__enter__", "__exit__"):
            names[mname] = f"{kname.strip('_').lower()}__{mname}"
    taken = {n.id for m in methods.values() for n in ast.walk(m) if isinstance(n, ast.Name)}
    if set(names.values()) & taken or len(set(names.values())) != len(names):
        return False
    field_vars = set(names[a] for a in fields)
    body = []
    gen_args = ast.arguments(posonlyargs=[], args=[], vararg=None, kwonlyargs=[], kw_defaults=[], kwarg=None, defaults=[])
    if "__init__" in methods:
        init = methods["__init__"]
        selfn = (init.args.posonlyargs + init.args.args)[0].arg
        ia = copy.deepcopy(init.args)
        if ia.posonlyargs:
            ia.posonlyargs = ia.posonlyargs[1:]
        else:
            ia.args = ia.args[1:]
        gen_args = ia
        if _contains(init.body, ast.Return):
            ib = tailify(list(_strip_doc(init.body)))
            if ib is None:
                return False
            ib = replace_returns(copy.deepcopy(ib), None)
        else:
            ib = copy.deepcopy(list(_strip_doc(init.body)))
        body += [_SelfRewriter(selfn, names).visit(x) for x in ib]
        pset = set(params_of(init)[1:])
        if pset & set(names.values()):
            return False
    for mname, m in methods.items():
        if mname in ("__init__", "__enter__", "__exit__"):
            continue
        body.append(_loc(_method_to_def(m, names[mname], names, field_vars), m))
    # __enter__: tail form; `return self` -> nothing to yield
    selfn = en.args.args[0].arg if en.args.args else en.args.posonlyargs[0].arg
    eb = tailify(list(_strip_doc(en.body)))
    if eb is None:
        return False
    eb = copy.deepcopy(eb)
    for n in [x for x in iter_own(eb) if isinstance(x, ast.Return)]:
        if n.value is not None and not (isinstance(n.value, ast.Name) and n.value.id == selfn) and not isinstance(n.value, ast.Constant):
            return False
        n.value = None
    eb = replace_returns(eb, None)
    body += [_SelfRewriter(selfn, names).visit(x) for x in eb]
    sx = (ex.args.posonlyargs + ex.args.args)[0].arg
    y = _loc(ast.Expr(value=ast.Yield(value=None)), en)
    if uses_exc:
        # __exit__ looks at its arguments: specialise it for "left by an exception" / "left normally"
        halves = []
        for present in (True, False):
            hb = _specialise_exit(list(_strip_doc(ex.body)), ex_params, present)
            if hb is None:
                return False
            hb = tailify(hb)
            if hb is None:
                return False
            rets = [n for n in iter_own(hb) if isinstance(n, ast.Return)]
            vals = {bool(n.value.value) if isinstance(n.value, ast.Constant) else None for n in rets if n.value is not None}
            if None in vals or len(vals | ({False} if any(n.value is None for n in rets) or not always_exits(hb) else set())) > 1:
                return False
            swallow = vals == {True} and always_exits(hb) and not any(n.value is None for n in rets)
            hb = replace_returns(copy.deepcopy(hb), None)
            hb = [_SelfRewriter(sx, names).visit(x) for x in hb]
            halves.append((hb, swallow))
        (pb, pswallow), (ab, _) = halves
        if not pswallow:
            pb = pb + [_loc(ast.Raise(exc=None, cause=None), ex)]
        handler = _loc(ast.ExceptHandler(type=ast.Name(id="BaseException", ctx=ast.Load()), name=None, body=pb or [_loc(ast.Pass(), ex)]), ex)
        body.append(_loc(ast.Try(body=[y], handlers=[handler], orelse=ab, finalbody=[]), ex))
    else:
        xb = tailify(list(_strip_doc(ex.body)))
        if xb is None:
            return False
        xb = replace_returns(copy.deepcopy(xb), None)
        xb = [_SelfRewriter(sx, names).visit(x) for x in xb]
        body.append(_loc(ast.Try(body=[y], handlers=[], orelse=[], finalbody=xb or [_loc(ast.Pass(), ex)]), ex))
    gen = ast.FunctionDef(name=kname, args=gen_args, body=body,
                          decorator_list=[ast.Name(id="contextmanager", ctx=ast.Load())], returns=None, type_params=[])
    _loc(gen, cls)
    _add_nonlocals(gen, field_vars, include_self=False)
    i = tree.body.index(cls)
    tree.body[i] = gen
    _ensure_contextmanager_import(tree)
    _CM_FROM_CLASS.setdefault(id(tree), set()).add(kname)
    return True


# ---------------------------------------------------------------------------------------------- pass: record results -> tuple unpacking
def _namedtuple_fields(tree):
    out = {}
    for c in tree.body:
        if isinstance(c, ast.ClassDef) and any((isinstance(b, ast.Name) and b.id == "NamedTuple") or
                                                (isinstance(b, ast.Attribute) and b.attr == "NamedTuple") for b in c.bases):
            fs = [st.target.id for st in c.body if isinstance(st, ast.AnnAssign) and isinstance(st.target, ast.Name)]
            if fs and not any(isinstance(st, _FUNC_NODES) for st in c.body):
                out[c.name] = fs
    return out


def destructure_record_results(tree):
    """`r = f(...)` where f always returns NamedTuple K(...) and r is only used as r.field / r[i]
    ->  `r__a, r__b, ... = f(...)`.  Also `r = K(...)` itself."""
    nts = _namedtuple_fields(tree)
    if not nts:
        return 0
    returns_k = dict((k, k) for k in nts)
    for f in tree.body:
        if isinstance(f, ast.FunctionDef):
            rets = [n for n in iter_own(list(f.body)) if isinstance(n, ast.Return)]
            ks = {n.value.func.id for n in rets if n.value is not None and isinstance(n.value, ast.Call) and isinstance(n.value.func, ast.Name)
                  and n.value.func.id in nts}
            if rets and len(ks) == 1 and all(n.value is not None and isinstance(n.value, ast.Call) and isinstance(n.value.func, ast.Name)
                                             and n.value.func.id in ks for n in rets):
                returns_k[f.name] = next(iter(ks))
    changed = 0
    for f in [x for x in ast.walk(tree) if isinstance(x, _FUNC_NODES)]:
        for st in [x for x in iter_own(list(f.body)) if isinstance(x, ast.Assign)]:
            if not (len(st.targets) == 1 and isinstance(st.targets[0], ast.Name) and isinstance(st.value, ast.Call)
                    and isinstance(st.value.func, ast.Name) and st.value.func.id in returns_k):
                continue
            if st.value.func.id in bound_names(f):
                continue
            var = st.targets[0].id
            fields = nts[returns_k[st.value.func.id]]
            if _assign_count(f, var) != 1 or var in params_of(f):
                continue
            if any(isinstance(sc, _SCOPE_NODES) and var in bound_names(sc) for sc in ast.walk(f) if sc is not f):
                continue
            parents = {}
            for pn in ast.walk(f):
                for c in ast.iter_child_nodes(pn):
                    parents[id(c)] = pn
            uses = [n for n in ast.walk(f) if isinstance(n, ast.Name) and n.id == var and n is not st.targets[0]]
            repl, ok = {}, bool(uses)
            for u in uses:
                pn = parents.get(id(u))
                if isinstance(pn, ast.Attribute) and pn.value is u and pn.attr in fields and isinstance(pn.ctx, ast.Load):
                    repl[id(pn)] = f"{var}__{pn.attr}"
                elif isinstance(pn, ast.Subscript) and pn.value is u and isinstance(pn.slice, ast.Constant) and isinstance(pn.slice.value, int) \
                        and 0 <= pn.slice.value < len(fields) and isinstance(pn.ctx, ast.Load):
                    repl[id(pn)] = f"{var}__{fields[pn.slice.value]}"
                else:
                    ok = False
            taken = {n.id for n in ast.walk(f) if isinstance(n, ast.Name)}
            if not ok or any(f"{var}__{x}" in taken for x in fields):
                continue
            st.targets = [ast.copy_location(ast.Tuple(elts=[ast.Name(id=f"{var}__{x}", ctx=ast.Store()) for x in fields], ctx=ast.Store()), st.targets[0])]

            class R(ast.NodeTransformer):
                def visit_Attribute(self, n):
                    if id(n) in repl:
                        return ast.copy_location(ast.Name(id=repl[id(n)], ctx=ast.Load()), n)
                    return self.generic_visit(n)

                def visit_Subscript(self, n):
                    if id(n) in repl:
                        return ast.copy_location(ast.Name(id=repl[id(n)], ctx=ast.Load()), n)
                    return self.generic_visit(n)
            R().visit(f)
            changed += 1
    return changed


# ---------------------------------------------------------------------------------------------- pass: alias elimination
def _assign_count(f, name):
    """Number of binding occurrences of `name` as a variable of function f (own scope + nonlocal writes below)."""
    n = 0
    for x in iter_own(list(f.body)):
        if isinstance(x, ast.Name) and x.id == name and isinstance(x.ctx, (ast.Store, ast.Del)):
            n += 1
        elif isinstance(x, _FUNC_NODES + (ast.ClassDef,)) and x.name == name:
            n += 1
        elif isinstance(x, ast.ExceptHandler) and x.name == name:
            n += 1
        elif isinstance(x, (ast.Import, ast.ImportFrom)) and any((al.asname or al.name).split(".")[0] == name for al in x.names):
            n += 1
    for g in [y for y in ast.walk(f) if isinstance(y, _FUNC_NODES) and y is not f]:
        if name in declared(g, ast.Nonlocal):
            n += sum(1 for x in iter_own(list(g.body)) if isinstance(x, ast.Name) and x.id == name and isinstance(x.ctx, (ast.Store, ast.Del)))
    return n


def _top_index(f, node):
    """Index of the top-level statement of f.body that contains `node` (or is it)."""
    for i, top in enumerate(f.body):
        if top is node or any(x is node for x in ast.walk(top)):
            return i
    return None


def _stable_before(scope, name, idx):
    """Every binding of `name` in function `scope` is a top-level, non-loop statement before index idx, and no nested
    function rebinds it."""
    if any(name in declared(g, ast.Nonlocal) for g in ast.walk(scope) if isinstance(g, _FUNC_NODES) and g is not scope):
        return False
    for i, top in enumerate(scope.body):
        binds = any((isinstance(x, ast.Name) and x.id == name and isinstance(x.ctx, (ast.Store, ast.Del)))
                    or (isinstance(x, _FUNC_NODES + (ast.ClassDef,)) and x.name == name)
                    or (isinstance(x, ast.ExceptHandler) and x.name == name) for x in iter_own([top]))
        if binds and (i >= idx or isinstance(top, (ast.For, ast.While, ast.AsyncFor))):
            return False
    return True


def eliminate_aliases(tree):
    """`a = b` where `a` is a name introduced by the passes above (assigned once) and `b` is a variable of the same or
    an enclosing function that is not rebound after the alias is made: every use of a becomes b."""
    changed = 0
    enclosing = {}
    for f in [x for x in ast.walk(tree) if isinstance(x, _FUNC_NODES)]:
        for g in [y for y in ast.walk(f) if isinstance(y, _FUNC_NODES) and y is not f]:
            enclosing.setdefault(id(g), []).append(f)  # outer functions are met first by ast.walk
    for g in [x for x in ast.walk(tree) if isinstance(x, _FUNC_NODES)]:
        again = True
        while again:
            again = False
            for st in [x for x in iter_own(list(g.body)) if isinstance(x, ast.Assign)]:
                if not (len(st.targets) == 1 and isinstance(st.targets[0], ast.Name) and isinstance(st.value, ast.Name)):
                    continue
                a, b = st.targets[0].id, st.value.id
                if a == b or ("__" not in a and "__" not in b) or _assign_count(g, a) != 1 or a in params_of(g):
                    continue
                chain = [g] + list(reversed(enclosing.get(id(g), [])))  # innermost first
                owner = next((sc for sc in chain if b in bound_names(sc)), None)
                if owner is None:
                    continue  # a global: could be rebound elsewhere
                if owner is g:
                    idx = _top_index(g, st)
                    if isinstance(g.body[idx], (ast.For, ast.While)) and g.body[idx] is not st:
                        pass
                    if not _stable_before(g, b, idx):
                        continue
                else:
                    inner = chain[chain.index(owner) - 1]
                    idx = _top_index(owner, inner)
                    if idx is None or owner.body[idx] is not inner or not _stable_before(owner, b, idx):
                        continue
                bad = False
                for sc in [y for y in ast.walk(g) if isinstance(y, _SCOPE_NODES) and y is not g]:
                    bn = bound_names(sc)
                    if a in bn or (b in bn and any(isinstance(n, ast.Name) and n.id == a for n in ast.walk(sc))):
                        bad = True
                for sc in chain[:chain.index(owner)]:
                    if sc is not g and b in bound_names(sc):
                        bad = True
                if bad:
                    continue
                for _o, _f, lst in stmt_lists(g):
                    if any(x is st for x in lst):
                        lst.remove(st)
                        if not lst:
                            lst.append(_loc(ast.Pass(), st))
                        break

                class R(ast.NodeTransformer):
                    def visit_Name(self, n):
                        if n.id == a:
                            return ast.copy_location(ast.Name(id=b, ctx=n.ctx), n)
                        return n

                    def visit_Nonlocal(self, n):
                        n.names = [x for x in n.names if x != a]
                        return n if n.names else None
                for i, x in enumerate(g.body):
                    g.body[i] = R().visit(x)
                changed += 1
                again = True
                break
    return changed


def beta_reduce_lambda_temporaries(tree):
    """`h__p = lambda a: E` (a temporary introduced for a callable parameter of an inlined helper, bound once) followed by
    calls `h__p(x)` with simple arguments  ->  `E[a := x]`."""
    changed = 0
    for f in [x for x in ast.walk(tree) if isinstance(x, _FUNC_NODES)]:
        for st in [x for x in iter_own(list(f.body)) if isinstance(x, ast.Assign)]:
            if not (len(st.targets) == 1 and isinstance(st.targets[0], ast.Name) and "__" in st.targets[0].id and isinstance(st.value, ast.Lambda)):
                continue
            name, lam = st.targets[0].id, st.value
            a = lam.args
            if a.vararg or a.kwarg or a.kwonlyargs or a.defaults or _assign_count(f, name) != 1:
                continue
            ps = [x.arg for x in a.posonlyargs + a.args]
            uses = [n for n in ast.walk(f) if isinstance(n, ast.Name) and n.id == name and n is not st.targets[0]]
            calls = [n for n in ast.walk(f) if isinstance(n, ast.Call) and isinstance(n.func, ast.Name) and n.func.id == name]
            if not calls or len(uses) != len(calls):
                continue
            if any(c.keywords or len(c.args) != len(ps) or not all(is_pure_simple(x) for x in c.args) for c in calls):
                continue
            # free names of the lambda body must mean the same at the call sites (no shadowing by comprehension targets etc.)
            body_free = {n.id for n in ast.walk(lam.body) if isinstance(n, ast.Name)} - set(ps)
            bad = False
            for sc in [y for y in ast.walk(f) if isinstance(y, _SCOPE_NODES) and y is not f and y is not lam]:
                if any(c2 is c for c in calls for c2 in ast.walk(sc)) and (bound_names(sc) & body_free):
                    bad = True
            if bad:
                continue

            class R(ast.NodeTransformer):
                def visit_Call(self, n):
                    self.generic_visit(n)
                    if isinstance(n.func, ast.Name) and n.func.id == name:
                        return ast.copy_location(Renamer(dict(zip(ps, n.args))).visit(copy.deepcopy(lam.body)), n)
                    return n
            for i, x in enumerate(f.body):
                if x is st:
                    continue
                f.body[i] = R().visit(x)
            for _o, _f, lst in stmt_lists(f):
                if any(x is st for x in lst):
                    lst.remove(st)
                    if not lst:
                        lst.append(_loc(ast.Pass(), st))
                    break
            changed += 1
    return changed


def forward_result_temporaries(tree):
    """`h__result = E` immediately followed by `return h__result` / `x = h__result` / `if h__result:` where the
    temporary (introduced by the inliner) has no other use  ->  the expression is used directly."""
    changed = 0
    for f in [x for x in ast.walk(tree) if isinstance(x, _FUNC_NODES)]:
        uses = {}
        for n in ast.walk(f):
            if isinstance(n, ast.Name) and "__result" in n.id:
                uses.setdefault(n.id, []).append(n)
        for _o, _f, lst in list(stmt_lists(f)):
            i = 0
            while i + 1 < len(lst):
                a, b = lst[i], lst[i + 1]
                if isinstance(a, ast.Assign) and len(a.targets) == 1 and isinstance(a.targets[0], ast.Name) and "__result" in a.targets[0].id:
                    t = a.targets[0].id
                    us = uses.get(t, [])
                    if len(us) == 2:
                        tgt = None
                        if isinstance(b, ast.Return) and isinstance(b.value, ast.Name) and b.value.id == t:
                            b.value = a.value
                            tgt = b
                        elif isinstance(b, ast.Assign) and isinstance(b.value, ast.Name) and b.value.id == t \
                                and all(isinstance(x, ast.Name) for x in b.targets):
                            b.value = a.value
                            tgt = b
                        elif isinstance(b, ast.If) and isinstance(b.test, ast.Name) and b.test.id == t:
                            b.test = a.value
                            tgt = b
                        elif isinstance(b, ast.If) and isinstance(b.test, ast.UnaryOp) and isinstance(b.test.op, ast.Not) \
                                and isinstance(b.test.operand, ast.Name) and b.test.operand.id == t:
                            b.test.operand = a.value
                            tgt = b
                        if tgt is not None:
                            del lst[i]
                            changed += 1
                            continue
                i += 1
    return changed


def drop_redundant_pass(tree):
    for _o, _f, lst in list(stmt_lists(tree)):
        if len(lst) > 1 and any(isinstance(x, ast.Pass) for x in lst):
            keep = [x for x in lst if not isinstance(x, ast.Pass)]
            lst[:] = keep or [lst[0]]


# ---------------------------------------------------------------------------------------------- module-level helpers
_IMPORTED_ELSEWHERE = {}   # module name -> names other modules of the package import from it (such a def stays where it is)


def _record_imports(trees):
    _IMPORTED_ELSEWHERE.clear()
    for name, tree in trees.items():
        for st in ast.walk(tree):
            if isinstance(st, ast.ImportFrom) and st.module:
                if st.level == 0:
                    target = st.module
                else:
                    base = name.split(".")[:-st.level] if not name.endswith("__init__") else name.split(".")[:-st.level]
                    target = ".".join(base + [st.module])
                for al in st.names:
                    _IMPORTED_ELSEWHERE.setdefault(target, set()).add(al.name)


def inline_module_helpers(tree, counter, modname, known, everything=False):
    """Inline private module-level helper functions into their (same-module) callers.  `known`: names of the
    functions of this module in the reference tree; unless `everything`, only helpers absent from it are moved."""
    total = 0
    for _ in range(4):
        cands = []
        for s in tree.body:
            if isinstance(s, ast.FunctionDef) and (everything or (s.name not in known and s.name not in _ALL_KNOWN[0])) \
                    and s.name not in _IMPORTED_ELSEWHERE.get(modname, ()):
                cands.append(s)
        n = inline_helpers(tree, cands, counter, is_module=True) if cands else 0
        total += n
        if not n:
            break
    return total


# ---------------------------------------------------------------------------------------------- private methods
def inline_private_methods(trees, known, counter):
    """A private method that is new relative to the reference tree, is defined by no other class and is only ever called
    as `self._m(...)` from methods of its own class is inlined into those callers (level 2)."""
    defined_in = {}
    for t in trees.values():
        for c in [x for x in ast.walk(t) if isinstance(x, ast.ClassDef)]:
            for st in c.body:
                if isinstance(st, _FUNC_NODES):
                    defined_in.setdefault(st.name, []).append(c)
    done = 0
    for mname, tree in trees.items():
        for cls in [x for x in tree.body if isinstance(x, ast.ClassDef)]:
            known_m = known.get(f"{mname}::{cls.name}")
            for meth in [st for st in list(cls.body) if isinstance(st, ast.FunctionDef)]:
                nm = meth.name
                if not nm.startswith("_") or (nm.startswith("__") and nm.endswith("__")) or meth.decorator_list:
                    continue
                if known_m is not None and nm in known_m:
                    continue
                if len(defined_in.get(nm, [])) != 1:
                    continue
                ps = meth.args.posonlyargs + meth.args.args
                if not ps or not inlinable_def(meth):
                    continue
                # every `.nm` in the module is `<self>.nm(...)` inside a method of this class
                attrs = [n for n in ast.walk(tree) if isinstance(n, ast.Attribute) and n.attr == nm]
                if any(isinstance(n, ast.Name) and n.id == nm for n in ast.walk(tree)):
                    continue
                sites = []
                ok = bool(attrs)
                for other in [st for st in cls.body if isinstance(st, ast.FunctionDef) and st is not meth]:
                    ops = other.args.posonlyargs + other.args.args
                    oself = ops[0].arg if ops else None
                    for c in [n for n in ast.walk(other) if isinstance(n, ast.Call) and isinstance(n.func, ast.Attribute) and n.func.attr == nm]:
                        if isinstance(c.func.value, ast.Name) and c.func.value.id == oself:
                            sites.append(c)
                if not ok or len(sites) != len(attrs) or {id(c.func) for c in sites} != {id(a) for a in attrs}:
                    continue
                backup = copy.deepcopy(cls)
                tmp = f"{cls.name}_{nm}".replace("__", "_")
                for c in sites:
                    recv = c.func.value
                    c.func = ast.copy_location(ast.Name(id=tmp, ctx=ast.Load()), c.func)
                    c.args = [recv] + list(c.args)
                meth.name = tmp
                if inline_helpers(cls, [meth], counter) == 1:
                    done += 1
                else:
                    cls.body[:] = backup.body
    return done


# ---------------------------------------------------------------------------------------------- cross-module helpers
import builtins as _builtins


def _module_bindings(tree):
    """name -> description of what binds it at module level (for comparing two modules' views of a name)."""
    out = {}
    for st in tree.body:
        if isinstance(st, ast.ImportFrom) and st.level == 0:
            for al in st.names:
                out[al.asname or al.name] = ("from", st.module, al.name)
        elif isinstance(st, ast.Import):
            for al in st.names:
                out[(al.asname or al.name).split(".")[0]] = ("import", al.name if al.asname else al.name.split(".")[0])
        elif isinstance(st, _FUNC_NODES + (ast.ClassDef,)):
            out[st.name] = ("def", st.name)
        elif isinstance(st, (ast.Assign, ast.AnnAssign)):
            tg = st.targets if isinstance(st, ast.Assign) else [st.target]
            for t in tg:
                for n in ast.walk(t):
                    if isinstance(n, ast.Name):
                        out[n.id] = ("var", n.id)
    return out


def inline_cross_module_helpers(trees, known, counter):
    """A helper function that is new relative to the reference tree, defined in module A and imported by name into
    module B, is copied into B (with the imports its body needs) and inlined at its call sites there."""
    done = 0
    for aname, atree in list(trees.items()):
        abind = _module_bindings(atree)
        everywhere = set()
        for k_, v_ in known.items():
            if "::" not in k_:
                everywhere |= set(v_)
        # a function that merely moved to another module is not a new helper
        for h in [x for x in atree.body if isinstance(x, ast.FunctionDef) and x.name not in known.get(aname, set()) and x.name not in everywhere]:
            if not inlinable_def(h):
                continue
            inlined_everywhere = True
            importers = []
            for bname, btree in trees.items():
                if bname == aname:
                    continue
                for st in btree.body:
                    if isinstance(st, ast.ImportFrom) and st.level == 0 and st.module == aname and any(al.name == h.name for al in st.names):
                        importers.append((bname, btree, st))
            if not importers:
                continue
            for bname, btree, imp in importers:
                al = next(a for a in imp.names if a.name == h.name)
                local = al.asname or al.name
                trial = copy.deepcopy(btree)
                timp = next(st for st in trial.body if isinstance(st, ast.ImportFrom) and st.level == 0 and st.module == aname
                            and any(a.name == h.name for a in st.names))
                bbind = _module_bindings(trial)
                extra_imports = []
                ok = True
                default_names = {d.id for d in list(h.args.defaults) + [d for d in h.args.kw_defaults if d is not None] if isinstance(d, ast.Name)}
                for g in sorted(free_names(h) | default_names):
                    if hasattr(_builtins, g):
                        continue
                    src = abind.get(g)
                    if src is None:
                        ok = False
                        break
                    want = src if src[0] in ("from", "import") else ("from", aname, g)
                    have = bbind.get(g)
                    if have == want:
                        continue
                    if have is not None:
                        ok = False
                        break
                    if want[0] == "from":
                        extra_imports.append(ast.ImportFrom(module=want[1], names=[ast.alias(name=want[2], asname=g if g != want[2] else None)], level=0))
                    else:
                        extra_imports.append(ast.Import(names=[ast.alias(name=want[1], asname=g if g != want[1] else None)]))
                if not ok:
                    inlined_everywhere = False
                    continue
                hc = copy.deepcopy(h)
                hc.name = local
                timp.names = [a for a in timp.names if a.name != h.name]
                idx = trial.body.index(timp)
                new_stmts = [_loc(x, timp) for x in extra_imports] + [hc]
                if timp.names:
                    trial.body[idx + 1:idx + 1] = new_stmts
                else:
                    trial.body[idx:idx + 1] = new_stmts
                if inline_helpers(trial, [hc], counter, is_module=True) == 1:
                    btree.body[:] = trial.body
                    done += 1
                else:
                    inlined_everywhere = False
            # the original definition goes when nothing refers to it any more
            still = any(isinstance(n, ast.Name) and n.id == h.name for n in ast.walk(atree) if n is not h) or \
                any(isinstance(st, ast.ImportFrom) and st.module == aname and any(a.name == h.name for a in st.names)
                    for t in trees.values() for st in ast.walk(t))
            if inlined_everywhere and not still and not _exported(atree, h.name):
                atree.body.remove(h)
    return done


# ---------------------------------------------------------------------------------------------- thread-pool context managers
def _is_cm_decorator(d):
    return (isinstance(d, ast.Name) and d.id == "contextmanager") or (isinstance(d, ast.Attribute) and d.attr == "contextmanager")


def _thread_creating_defs(tree):
    """Names of the module-level functions of `tree` that (transitively, through calls by plain name inside the module)
    construct a threading.Thread."""
    thread_names, mod_aliases = set(), set()
    for st in tree.body:
        if isinstance(st, ast.ImportFrom) and st.module == "threading":
            thread_names |= {(a.asname or a.name) for a in st.names if a.name == "Thread"}
        if isinstance(st, ast.Import):
            mod_aliases |= {(a.asname or a.name) for a in st.names if a.name == "threading"}
    defs = {x.name: x for x in tree.body if isinstance(x, ast.FunctionDef)}
    direct, calls = set(), {}
    for name, d in defs.items():
        cs = set()
        for n in ast.walk(d):
            if isinstance(n, ast.Call):
                f = n.func
                if isinstance(f, ast.Name):
                    cs.add(f.id)
                    if f.id in thread_names:
                        direct.add(name)
                elif isinstance(f, ast.Attribute) and f.attr == "Thread" and isinstance(f.value, ast.Name) and f.value.id in mod_aliases:
                    direct.add(name)
        calls[name] = cs
    out = set(direct)
    changed = True
    while changed:
        changed = False
        for name, cs in calls.items():
            if name not in out and cs & out:
                out.add(name)
                changed = True
    return out, defs


def _escaping_jumps(stmts, allow_yield=False):
    """Does this statement list contain a return / yield, or a break / continue that leaves it?  (A yield is harmless for the
    replacement of a `with` by the manager's code: whatever is thrown in at it reaches the same handlers in both forms.)"""
    def rec(lst, in_loop):
        for st in lst:
            if isinstance(st, _FUNC_NODES + (ast.ClassDef,)):
                continue
            if isinstance(st, ast.Return):
                return True
            if isinstance(st, (ast.Break, ast.Continue)) and not in_loop:
                return True
            for x in _shallow_walk(st):
                if isinstance(x, (ast.Yield, ast.YieldFrom, ast.Await)) and not (allow_yield and isinstance(x, ast.Yield)):
                    return True
            loop = in_loop or isinstance(st, (ast.For, ast.While, ast.AsyncFor))
            for f in ("body", "orelse", "finalbody"):
                sub = getattr(st, f, None)
                if isinstance(sub, list) and sub and isinstance(sub[0], ast.stmt):
                    if rec(sub, loop if f == "body" else in_loop):
                        return True
            for h in getattr(st, "handlers", []) or []:
                if rec(h.body, in_loop):
                    return True
            for c in getattr(st, "cases", []) or []:
                if rec(c.body, in_loop):
                    return True
        return False
    return rec(stmts, False)


_WITH_BODY = "__with_body__"
_WITH_AS = "__with_as__"


def _generator_as_template(g):
    """Copy of the generator context manager `g` as a plain def in which its single `yield [v]` statement is replaced by
    `__with_as__ = v` followed by the placeholder statement `__with_body__`; None if `g` is not of that simple form."""
    ys = [n for n in iter_own(list(g.body)) if isinstance(n, (ast.Yield, ast.YieldFrom))]
    if len(ys) != 1 or not isinstance(ys[0], ast.Yield):
        return None
    if any(isinstance(n, ast.Return) for n in iter_own(list(g.body))):
        return None
    h = copy.deepcopy(g)
    h.decorator_list = []
    found = []

    def rec(lst, in_loop):
        for i, st in enumerate(lst):
            if isinstance(st, _FUNC_NODES + (ast.ClassDef,)):
                continue
            if isinstance(st, ast.Expr) and isinstance(st.value, ast.Yield):
                if in_loop:
                    raise _Bail("yield inside a loop")
                v = st.value.value if st.value.value is not None else ast.Constant(None)
                lst[i:i + 1] = [_loc(ast.Assign(targets=[ast.Name(id=_WITH_AS, ctx=ast.Store())], value=v), st),
                                _loc(ast.Expr(value=ast.Name(id=_WITH_BODY, ctx=ast.Load())), st)]
                found.append(st)
                return
            loop = in_loop or isinstance(st, (ast.For, ast.While, ast.AsyncFor))
            for f in ("body", "orelse", "finalbody"):
                sub = getattr(st, f, None)
                if isinstance(sub, list) and sub and isinstance(sub[0], ast.stmt):
                    rec(sub, loop)
                    if found:
                        return
            for hd in getattr(st, "handlers", []) or []:
                rec(hd.body, in_loop)
                if found:
                    return
    try:
        rec(h.body, False)
    except _Bail:
        return None
    if not found:
        return None  # the yield is not a statement of its own
    return h


def inline_thread_pool_withs(trees, select=None):
    """`with pool(args) [as x]: BODY`, where `pool` is a module-level @contextmanager generator function of the same module
    that starts threads (a worker pool), is replaced by the generator's body with BODY in the place of its single `yield`
    (arguments substituted, the generator's locals renamed).  This is what contextlib executes: the code before the yield
    is __enter__, an exception of BODY is raised at the yield (so the generator's try/finally/except suites see it), the
    code after it is __exit__.  The thread life cycle - start, release, join - of the engine is then one function, and the
    rules state it as paths of that function wherever the code on disk draws the line between the two.
    Not done when BODY leaves by return / break / continue (contextlib then resumes the generator normally, an inlined
    try/finally would not run the code after the yield), when the yield is in a loop or is not a statement, or when a free
    name of the generator is shadowed at the site.  Returns the number of with statements replaced."""
    done = 0
    own_pools = {}
    for name, tree in trees.items():
        if select is not None:
            # the same replacement for other generator context managers of the module (`select` names them)
            own_pools[name] = {d.name: d for d in tree.body if isinstance(d, ast.FunctionDef) and d.name in select(tree)
                               and any(_is_cm_decorator(x) for x in d.decorator_list)}
            continue
        creating, defs = _thread_creating_defs(tree)
        own_pools[name] = {n: d for n, d in defs.items() if n in creating and any(_is_cm_decorator(x) for x in d.decorator_list)}
    for name, tree in trees.items():
        pools = dict(own_pools[name])
        # a pool defined in another module of the package and imported by name: its free names must mean the same here
        # (imports it needs are added; a name that is bound differently here blocks the inlining)
        bbind = None
        for st in list(tree.body):
            if not (isinstance(st, ast.ImportFrom) and st.level == 0 and st.module in own_pools):
                continue
            for al in st.names:
                g = own_pools[st.module].get(al.name)
                local = al.asname or al.name
                if g is None or local in pools:
                    continue
                import builtins as _b
                abind = _module_bindings(trees[st.module])
                bbind = _module_bindings(tree) if bbind is None else bbind
                extra, ok = [], True
                for fv in sorted(free_names(g)):
                    if hasattr(_b, fv):
                        continue
                    src = abind.get(fv)
                    if src is None:
                        ok = False
                        break
                    want = src if src[0] in ("from", "import") else ("from", st.module, fv)
                    have = bbind.get(fv)
                    if have == want:
                        continue
                    if have is not None:
                        ok = False
                        break
                    if want[0] == "from":
                        extra.append(ast.ImportFrom(module=want[1], names=[ast.alias(name=want[2], asname=fv if fv != want[2] else None)], level=0))
                    else:
                        extra.append(ast.Import(names=[ast.alias(name=want[1], asname=fv if fv != want[1] else None)]))
                    bbind[fv] = want
                if not ok:
                    continue
                idx_ = tree.body.index(st)
                tree.body[idx_ + 1:idx_ + 1] = [_loc(x, st) for x in extra]
                pools[local] = g
        if not pools:
            continue
        counter = itertools.count(5000)
        for _round in range(4):
            changed = False
            for owner, field, lst in list(stmt_lists(tree)):
                if any(owner is x for d in pools.values() for x in ast.walk(d)):
                    continue
                for idx, st in enumerate(lst):
                    if not isinstance(st, ast.With):
                        continue
                    hit = [i for i, it in enumerate(st.items) if _call_of(it.context_expr, set(pools))]
                    if not hit:
                        continue
                    i = hit[0]
                    it = st.items[i]
                    g = pools[it.context_expr.func.id]
                    body = st.body if i == len(st.items) - 1 else [_loc(ast.With(items=st.items[i + 1:], body=st.body), st)]
                    if _escaping_jumps(body, allow_yield=select is not None):
                        continue
                    h = _generator_as_template(g)
                    if h is None or not inlinable_def(h):
                        continue
                    between = _scopes_between(tree, lst)
                    if any(not isinstance(sc, _FUNC_NODES) for sc in between):
                        continue
                    shadow = set()
                    for sc in between:
                        shadow |= bound_names(sc)
                    if (free_names(h) - {_WITH_BODY}) & shadow:
                        continue
                    try:
                        stmts, _res = Inliner(counter).expand(h, it.context_expr, False)
                    except _Bail:
                        continue
                    # put BODY (and the `as` binding) in the place of the placeholder
                    placed = []

                    def place(sl):
                        for j, x in enumerate(sl):
                            if isinstance(x, ast.Expr) and isinstance(x.value, ast.Name) and x.value.id == _WITH_BODY:
                                pre = sl[j - 1]
                                if it.optional_vars is not None:
                                    sl[j - 1] = _loc(ast.Assign(targets=[it.optional_vars], value=pre.value), pre)
                                    sl[j:j + 1] = body
                                elif isinstance(pre.value, ast.Constant):
                                    sl[j - 1:j + 1] = body
                                else:
                                    sl[j - 1] = _loc(ast.Expr(value=pre.value), pre)
                                    sl[j:j + 1] = body
                                placed.append(1)
                                return
                            for f in ("body", "orelse", "finalbody"):
                                sub = getattr(x, f, None)
                                if isinstance(sub, list) and sub and isinstance(sub[0], ast.stmt):
                                    place(sub)
                                    if placed:
                                        return
                            for hd in getattr(x, "handlers", []) or []:
                                place(hd.body)
                                if placed:
                                    return
                    place(stmts)
                    if not placed:
                        continue
                    new = stmts if i == 0 else [_loc(ast.With(items=st.items[:i], body=stmts), st)]
                    lst[idx:idx + 1] = new
                    done += 1
                    # a callback the site handed to the pool (a closure of the enclosing function) is now called in place
                    if between:
                        fn_ = between[-1]
                        cands = [x for x in fn_.body if isinstance(x, ast.FunctionDef)]
                        if cands:
                            inline_helpers(fn_, cands, counter)
                    changed = True
                    break
                if changed:
                    break
            if not changed:
                break
        if done:
            ast.fix_missing_locations(tree)
    return done



# ---------------------------------------------------------------------------------------------- delegating methods
def inline_delegating_methods(trees):
    """`def _m(self, p=d, **kw): return F(<self.attr ...>, p, **kw)` - a private method whose whole body hands its parameters on
    to one module-level function - is replaced at every call site `x._m(a, k=v)` by `F(<x.attr ...>, a, k=v)` (the import of F is
    added where needed).  Only when `_m` is defined in exactly one class, is never overridden or referenced otherwise, and every
    site calls it on a plain name."""
    defined = {}
    for mname, t in trees.items():
        for c in [x for x in ast.walk(t) if isinstance(x, ast.ClassDef)]:
            for st in c.body:
                if isinstance(st, _FUNC_NODES):
                    defined.setdefault(st.name, []).append((mname, t, c, st))
    done = 0
    for nm, places in defined.items():
        if len(places) != 1 or not nm.startswith("_") or (nm.startswith("__") and nm.endswith("__")):
            continue
        mname, tree, cls, meth = places[0]
        if not isinstance(meth, ast.FunctionDef) or meth.decorator_list or meth.args.vararg or meth.args.posonlyargs or meth.args.kwonlyargs:
            continue
        body = _strip_doc(meth.body)
        if len(body) != 1 or not isinstance(body[0], ast.Return) or not isinstance(body[0].value, ast.Call) or not isinstance(body[0].value.func, ast.Name):
            continue
        call = body[0].value
        ps = [a.arg for a in meth.args.args]
        if not ps:
            continue
        selfn, params = ps[0], ps[1:]
        kwname = meth.args.kwarg.arg if meth.args.kwarg else None
        defaults = dict(zip(params[len(params) - len(meth.args.defaults):], meth.args.defaults)) if meth.args.defaults else {}
        if any(not isinstance(d, ast.Constant) for d in defaults.values()):
            continue
        fname = call.func.id
        bind = _module_bindings(tree)
        src = bind.get(fname)
        if src is None:
            continue
        want = src if src[0] in ("from", "import") else ("from", mname, fname)

        def simple(e):
            # a parameter handed on, a constant, or an attribute path on self
            if isinstance(e, ast.Constant) or (isinstance(e, ast.Name) and e.id in params):
                return True
            while isinstance(e, ast.Attribute):
                e = e.value
            return isinstance(e, ast.Name) and e.id == selfn
        if not all(simple(a) for a in call.args) or any(isinstance(a, ast.Starred) for a in call.args):
            continue
        ok = True
        for k in call.keywords:
            if k.arg is None:
                ok = ok and isinstance(k.value, ast.Name) and k.value.id == kwname
            else:
                ok = ok and simple(k.value)
        if not ok:
            continue
        # every mention of the name is a call `<name>._m(...)`
        sites = []
        for bname, btree in trees.items():
            parents = {}
            for p_ in ast.walk(btree):
                for c_ in ast.iter_child_nodes(p_):
                    parents[id(c_)] = p_
            for a in [n for n in ast.walk(btree) if isinstance(n, ast.Attribute) and n.attr == nm]:
                par = parents.get(id(a))
                if not (isinstance(par, ast.Call) and par.func is a and isinstance(a.value, ast.Name)):
                    ok = False
                sites.append((bname, btree, par, a))
            if any(isinstance(n, ast.Name) and n.id == nm for n in ast.walk(btree)) or \
                    any(isinstance(n, ast.Constant) and n.value == nm for n in ast.walk(btree)):
                ok = False
        if not ok or not sites:
            continue
        # bind and rewrite
        plans = []
        for bname, btree, site, attr in sites:
            if any(isinstance(a, ast.Starred) for a in site.args) or any(k.arg is None for k in site.keywords) or len(site.args) > len(params):
                ok = False
                break
            given = dict(zip(params, site.args))
            extra = []
            for k in site.keywords:
                if k.arg in params and k.arg not in given:
                    given[k.arg] = k.value
                elif kwname is not None and k.arg not in params:
                    extra.append(k)
                else:
                    ok = False
            for p_ in params:
                if p_ not in given:
                    if p_ in defaults:
                        given[p_] = copy.deepcopy(defaults[p_])
                    else:
                        ok = False
            if not ok:
                break
            bbind = _module_bindings(btree)
            have = bbind.get(fname)
            need_import = None
            if btree is not tree and have != want:
                if have is not None:
                    ok = False
                    break
                need_import = want
            elif btree is tree and have is None:
                ok = False
                break
            plans.append((btree, site, attr, given, extra, need_import))
        if not ok:
            continue
        for btree, site, attr, given, extra, need_import in plans:
            recv = attr.value

            def subst(e):
                e = copy.deepcopy(e)

                class R(ast.NodeTransformer):
                    def visit_Name(self, n):
                        if n.id == selfn:
                            return ast.copy_location(copy.deepcopy(recv), n)
                        if n.id in given:
                            return ast.copy_location(copy.deepcopy(given[n.id]), n)
                        return n
                return R().visit(e)
            new_args = [subst(a) for a in call.args]
            new_kws = []
            for k in call.keywords:
                if k.arg is None:
                    new_kws += [ast.keyword(arg=x.arg, value=x.value) for x in extra]
                else:
                    new_kws.append(ast.keyword(arg=k.arg, value=subst(k.value)))
            site.func = ast.copy_location(ast.Name(id=fname, ctx=ast.Load()), attr)
            site.args = new_args
            site.keywords = new_kws
            if need_import is not None:
                imp = ast.ImportFrom(module=need_import[1], names=[ast.alias(name=need_import[2], asname=fname if fname != need_import[2] else None)], level=0) \
                    if need_import[0] == "from" else ast.Import(names=[ast.alias(name=need_import[1], asname=fname if fname != need_import[1] else None)])
                idx = max([i for i, st in enumerate(btree.body) if isinstance(st, (ast.Import, ast.ImportFrom))] + [-1]) + 1
                btree.body.insert(idx, _loc(imp, btree.body[idx - 1] if idx else btree.body[0]))
            done += 1
        # nothing refers to the private method any more
        cls.body.remove(meth)
        if not cls.body:
            cls.body.append(_loc(ast.Pass(), meth))
    if done:
        for t in trees.values():
            ast.fix_missing_locations(t)
    return done


# ---------------------------------------------------------------------------------------------- driver
def load_known_funcs():
    """Reference table: module -> names of its module-level functions on the tree the rules were confirmed on.
    It only steers which helpers level 2 moves (new ones); it never influences a verdict."""
    import json
    import os
    p = os.path.join(os.path.dirname(os.path.abspath(__file__)), "tables", "known_funcs.json")
    try:
        with open(p) as fh:
            return {k: set(v) for k, v in json.load(fh).items()}
    except OSError:
        return {}


_ALL_KNOWN = [set()]


def canonicalise(trees, level, known_funcs=None):
    """trees: {modname: ast.Module} (modified in place on deep copies by the caller).  Returns a log of what was done."""
    log = []
    if level <= 0:
        return log
    _ALL_KNOWN[0] = set()
    for k_, v_ in (known_funcs or {}).items():
        if "::" not in k_:
            _ALL_KNOWN[0] |= set(v_)
    _record_imports(trees)
    n_dm = inline_delegating_methods(trees)
    if n_dm:
        log.append({"module": "*", "delegating_methods_inlined": n_dm})
    if level >= 2:
        n_x = inline_cross_module_helpers(trees, known_funcs or {}, itertools.count(1000))
        n_pm = inline_private_methods(trees, known_funcs or {}, itertools.count(2000))
        if n_x or n_pm:
            for t_ in trees.values():
                ast.fix_missing_locations(t_)
            log.append({"module": "*", "cross_module_helpers_inlined": n_x, "private_methods_inlined": n_pm})
    for name, tree in trees.items():
        counter = itertools.count()
        mt = MatchToIf()
        mt.visit(tree)
        sw = SplitWith()
        sw.visit(tree)
        mt.changed += sw.changed + expand_dict_splats(tree) + rmw_through_local(tree)
        n_acq = acquire_to_with(tree)
        n_obj = objects_to_closures(tree, counter)
        if n_obj and _CM_FROM_CLASS.get(id(tree)):
            # a context-manager class that was entered at one place: its code now stands where the `with` stood
            n_obj += inline_thread_pool_withs({name: tree}, select=lambda t_: _CM_FROM_CLASS.get(id(t_), set()))
        n_inl = inline_closures(tree, counter)
        n_st = scalarise_state_objects(tree)
        if n_st:
            n_inl += inline_closures(tree, counter)
        n_mod = 0
        if level >= 2:
            known = (known_funcs or {}).get(name, set())
            n_mod = inline_module_helpers(tree, counter, name, known, everything=(level >= 3))
            if n_mod:
                n_inl += inline_closures(tree, counter)
                n_st += scalarise_state_objects(tree)
        n_pool = inline_thread_pool_withs({name: tree})
        if n_pool:
            # callbacks handed to the pool are closures of the engine that are now called in place
            n_inl += inline_closures(tree, counter) + n_pool
            n_st += scalarise_state_objects(tree)
        n_rec = destructure_record_results(tree)
        mt.changed += sink_flag_tests(tree)
        n_alias = eliminate_aliases(tree) if (n_inl or n_st or n_obj or n_mod or n_rec) else 0
        if n_alias:
            # a closure that was reachable only through an alias (`cb = obj.method` handed to an inlined callee) is now called by name
            n_inl += inline_closures(tree, counter)
        if n_inl or n_obj or n_mod:
            forward_result_temporaries(tree)
            beta_reduce_lambda_temporaries(tree)
        drop_redundant_pass(tree)
        if mt.changed or n_acq or n_inl or n_st or n_mod or n_obj or n_rec:
            ast.fix_missing_locations(tree)
            log.append({"module": name, "match_to_if": mt.changed, "acquire_to_with": n_acq, "closures_inlined": n_inl,
                        "state_objects": n_st, "module_helpers_inlined": n_mod, "objects_to_closures": n_obj, "record_results_unpacked": n_rec})
    return log


if __name__ == "__main__":  # debugging aid: print the canonicalised source of one file
    import sys
    lvl = int(sys.argv[2]) if len(sys.argv) > 2 else 1
    t = ast.parse(open(sys.argv[1]).read())
    print(canonicalise({"m": t}, lvl), file=sys.stderr)
    print(ast.unparse(t))
