"""Pruning, decided by evaluation on abstract plans (C01.A6, C03.T5, C04.D3, C05.W3, C06.X1, C09.W3).

The two pruning transformations are interpreted by the checker's AST evaluator on a family of small abstract plans over the
checker-side multigraph model.  What is required of the result is stated on graphs, not on code shape, so it is independent of how
the closure is computed (worklist, generations, visited marks on push or on pop), of how nodes are removed (one by one, in bulk,
by rebuilding) and of helper names:

PRUNE(plan, required, output)   [today prune_plan]
  * exactly the ancestors (reflexive) of required + output survive, except Literal nodes that carry no argument edge, are not the
    output, and are contracted: a contracted node's predecessors stay connected to its successors;
  * for every two surviving nodes, u reaches v afterwards iff it did before (no ordering constraint lost or invented);
  * the argument edges (positional / keyword) of every surviving call are exactly what they were;
  * the given plan is untouched when inplace=False.
LITPRUNE(plan, predicate)       [today prune_source_literals]
  * removes only Literal nodes without predecessors (and, with a predicate, only those it accepts); every other node survives with
    its edges; reachability among survivors is unchanged.
"""
from __future__ import annotations

import ast

from ..absval import AbsRaise, Obj, Stub
from ..astq import loc
from ..model import AnalysisError, Func
from . import roles


def _removes_nodes(m, f):
    for g in [f] + list(m.reachable([f], kinds=("call",))):
        for c in g.own_calls():
            if isinstance(c.func, ast.Attribute) and c.func.attr in ("remove_node", "remove_nodes_from"):
                return True
    return False


def prune_role(m, rr):
    """PRUNE: the node-removing transformation that `run` itself calls (other than the registry application and the executor)."""
    run = rr.run
    cands = set()
    for c in run.own_calls():
        for g in m.callee_funcs(run, c):
            if g not in (rr.apply, rr.run_physical) and g.cls is None and _removes_nodes(m, g):
                cands.add(g)
    if len(cands) != 1:
        raise AnalysisError(f"role PRUNE: expected run to call one pruning transformation, found {sorted(g.qualname for g in cands)}")
    return next(iter(cands))


def litprune_role(m, rr):
    """LITPRUNE: the node-removing transformation the run preparation calls before executing (removes source literals)."""
    prep = rr.prep_run
    cands = set()
    for c in prep.own_calls():
        for g in m.callee_funcs(prep, c):
            if g.cls is None and g.parent is None and _removes_nodes(m, g):
                cands.add(g)
    if len(cands) != 1:
        raise AnalysisError(f"role LITPRUNE: expected the run preparation to call one literal-pruning transformation, found {sorted(g.qualname for g in cands)}")
    return next(iter(cands))


class _P:
    """An abstract plan under construction: calls, literals and edges by name."""

    def __init__(self, m, rr):
        from .rewriterules import World
        self.w = World(m, rr)
        self.n = {}

    def call(self, *names):
        for nm in names:
            self.n[nm] = self.w.call(nm)
        return self

    def lit(self, *names):
        w = self.w
        for nm in names:
            o = Obj(w.C["Literal"], {"value": f"val-{nm}", "scope": ()}, name=nm)
            w.g.add_node(o)
            w.names[id(o)] = nm
            self.n[nm] = o
        return self

    def dep(self, *pairs):
        for u, v in pairs:
            self.w.edge(self.n[u], self.n[v], "Dep")
        return self

    def arg(self, u, v, i=0):
        self.w.edge(self.n[u], self.n[v], "Pos", i)
        return self


def _reach_table(g, nodes):
    return {(id(u), id(v)): g.reach(u, v) for u in nodes for v in nodes if u is not v}


def _ancestors(g, seeds):
    seen, work = set(), list(seeds)
    out = []
    while work:
        x = work.pop()
        if id(x) in seen:
            continue
        seen.add(id(x))
        out.append(x)
        work.extend(g.predecessors(x))
    return out


def _arg_edges(w, g, node):
    return sorted((w.names.get(id(u), "?"), k.cls.name, tuple(sorted((a_, repr(b_)) for a_, b_ in k.attrs.items())))
                  for (u, v, k) in g._edges if v is node and k.cls is not w.C["Dependency"])


def _cases(m, rr):
    """(label, plan builder, required names, output name)"""
    def chain():
        return _P(m, rr).call("a", "b").lit("L1", "L2").dep(("a", "L1"), ("L1", "L2"), ("L2", "b"))

    def fan22():
        return _P(m, rr).call("a", "a2", "b", "b2").lit("L").dep(("a", "L"), ("a2", "L"), ("L", "b"), ("L", "b2"))

    def fan33():
        p = _P(m, rr).call("a1", "a2", "a3", "b1", "b2", "b3").lit("L")
        return p.dep(*[(f"a{i}", "L") for i in (1, 2, 3)], *[("L", f"b{i}") for i in (1, 2, 3)])

    def argument():
        return _P(m, rr).call("a", "b").lit("L").dep(("a", "L")).arg("L", "b")

    def unrelated():
        return _P(m, rr).call("a", "b", "u", "v").lit("K").arg("a", "b").dep(("u", "v")).arg("K", "v")

    def out_literal():
        return _P(m, rr).call("a", "z").lit("O").dep(("a", "O"), ("O", "z"))

    def required_side():
        return _P(m, rr).call("s", "w", "r", "o", "x").arg("s", "w").dep(("w", "r")).arg("r", "o").dep(("o", "x"))

    def three_chain():
        return _P(m, rr).call("a", "b", "c").lit("L1", "L2", "L3").dep(("a", "L1"), ("L1", "L2"), ("L2", "L3"), ("L3", "b"), ("L2", "c"))

    def diamond():
        return _P(m, rr).call("a", "b", "c", "d", "e").arg("a", "b").arg("a", "c").arg("b", "d").arg("c", "d", 1).dep(("d", "e"))
    return [("chain of two literals", chain, [], "b"), ("literal with two predecessors and two successors", fan22, ["b2"], "b"),
            ("literal with 3x3 neighbours", fan33, ["b2", "b3"], "b1"), ("literal that is an argument", argument, [], "b"),
            ("unrelated component", unrelated, [], "b"), ("output is a literal with a predecessor", out_literal, [], "O"),
            ("required node beside the output", required_side, ["w"], "o"), ("branching chain of three literals", three_chain, ["c"], "b"),
            ("diamond, output in the middle", diamond, [], "d"), ("no output, one required node", diamond, ["c"], None),
            ("nothing required", chain, [], None)]


def rule_pruning_evaluated(ctx, rid, rr):
    m = ctx.model
    prune = prune_role(m, rr)
    try:
        lp = litprune_role(m, rr)
    except AnalysisError:
        lp = None  # the run preparation removes literals itself: decided by rule_execution_graph below, on the preparation as a whole
    on = [p for p in prune.params if "output" in p]
    rq = [p for p in prune.params if "required" in p]
    ip = [p for p in prune.params if "inplace" in p]
    if len(on) != 1 or len(rq) != 1 or len(ip) != 1 or not prune.pos_params:
        raise AnalysisError(f"{prune.qualname}: expected parameters (plan, required nodes, output node, inplace), found {prune.params}")
    n_cases = 0
    bad = []
    for label, build, required, output in _cases(m, rr):
        p = build()
        w = p.w
        g0 = w.g
        before_nodes = list(g0._nodes)
        before_edges = list(g0._edges)
        seeds = [p.n[x] for x in required] + ([p.n[output]] if output else [])
        anc = _ancestors(g0, seeds)
        reach0 = _reach_table(g0, before_nodes)
        args0 = {id(n_): _arg_edges(w, g0, n_) for n_ in before_nodes}
        kw = {rq[0]: [p.n[x] for x in required], on[0]: p.n[output] if output else None, ip[0]: False}
        try:
            res = w.interp.call_func(prune, None, [w.plan] + [kw[p_] for p_ in prune.pos_params[1:] if p_ in kw],
                                     {k_: v_ for k_, v_ in kw.items() if k_ in prune.kwonly_params})
        except AbsRaise as e:
            raise AnalysisError(f"abstract evaluation of {prune.qualname} on '{label}' raised {e.value!r}")
        n_cases += 1
        if not (isinstance(res, Obj) and "graph" in res.attrs):
            bad.append(f"{label}: does not return a plan")
            continue
        g1 = res.attrs["graph"]
        kept = list(g1._nodes)
        name = lambda x: w.names.get(id(x), "?")
        why = None
        if g0._nodes != before_nodes or g0._edges != before_edges or res is w.plan:
            why = "the given plan is modified although inplace=False"
        extra = [name(x) for x in kept if not any(x is y for y in anc)]
        lost = [name(x) for x in anc if not any(x is y for y in kept) and
                (x.cls is w.C["Call"] or x is (p.n[output] if output else None) or any(k.cls is not w.C["Dependency"] for (u, v, k) in before_edges if u is x))]
        if why is None and extra:
            why = f"nodes that the required nodes and the output do not depend on survive: {extra}"
        if why is None and lost:
            why = f"needed nodes are removed: {lost} (ancestors of the required nodes / the output; an output or argument literal)"
        if why is None:
            for u in kept:
                for v in kept:
                    if u is not v and g1.reach(u, v) != reach0[(id(u), id(v))]:
                        why = (f"the dependency path {name(u)} -> {name(v)} is " + ("lost" if reach0[(id(u), id(v))] else "invented") +
                               ": the call may start before (or must wait for) a call it was (not) ordered after")
                        break
                if why:
                    break
        if why is None:
            for n_ in kept:
                if _arg_edges(w, g1, n_) != args0[id(n_)]:
                    why = f"the argument edges of {name(n_)} changed"
                    break
        if why:
            bad.append(f"{label}: {why}")
    # termination on cyclic input: run() prunes before the engine rejects a cycle, so the closure must terminate on cyclic plans too
    for label, edges in (("two calls depending on each other", [("a", "b"), ("b", "a")]), ("a call depending on itself", [("a", "a"), ("a", "b")]),
                         ("a cycle upstream of the output", [("a", "c"), ("c", "a"), ("c", "b")])):
        p = _P(m, rr).call("a", "b", "c").dep(*edges)
        w = p.w
        w.interp.budget = 20000
        kw = {rq[0]: [], on[0]: p.n["b"], ip[0]: False}
        try:
            w.interp.call_func(prune, None, [w.plan] + [kw[p_] for p_ in prune.pos_params[1:] if p_ in kw],
                               {k_: v_ for k_, v_ in kw.items() if k_ in prune.kwonly_params})
            n_cases += 1
        except AbsRaise as e:
            bad.append(f"{label}: raises {e.value!r} instead of leaving the verdict to the engine's acyclicity assertion")
        except AnalysisError as e:
            if "budget" in str(e):
                bad.append(f"{label}: the ancestor closure does not terminate on a cyclic plan (run() would hang instead of rejecting the cycle)")
            else:
                raise
    # a cycle that runs through dependency-only literals must survive the pruning (so that the engine's acyclicity assertion reports
    # it): contracting the literals of a cycle one after the other makes it disappear, and the run silently succeeds
    bad_other, bad = bad, []
    for label, lits, edges in (("two literals depending on each other, upstream of the output", ("L1", "L2"), [("L1", "L2"), ("L2", "L1"), ("L2", "b")]),
                               ("a cycle of three literals upstream of the output", ("L1", "L2", "L3"), [("L1", "L2"), ("L2", "L3"), ("L3", "L1"), ("L3", "b")]),
                               ("a call and a literal depending on each other", ("L1",), [("a", "L1"), ("L1", "a"), ("a", "b")])):
        p = _P(m, rr).call("a", "b").lit(*lits).dep(*edges)
        w = p.w
        w.interp.budget = 20000
        kw = {rq[0]: [], on[0]: p.n["b"], ip[0]: False}
        try:
            res = w.interp.call_func(prune, None, [w.plan] + [kw[p_] for p_ in prune.pos_params[1:] if p_ in kw],
                                     {k_: v_ for k_, v_ in kw.items() if k_ in prune.kwonly_params})
            n_cases += 1
            g1 = res.attrs["graph"] if isinstance(res, Obj) and "graph" in res.attrs else None
            still = g1 is not None and any(g1.reach(s_, x) for x in g1._nodes for s_ in g1.successors(x))
            if not still:
                bad.append(f"{label}: the pruned plan is acyclic - the cycle is contracted away, nothing reports it and the run succeeds")
        except AbsRaise:
            n_cases += 1  # reporting the cycle right here is fine too
        except AnalysisError as e:
            if "budget" in str(e):
                bad.append(f"{label}: the pruning does not terminate")
            else:
                raise
    if rid.startswith("C07"):
        # (only C07 speaks about cycles being reported; the other properties use this rule for what pruning keeps and orders)
        ctx.ob(rid, f"{prune.short}/cycles-through-literals-survive", not bad, loc(prune),
               "evaluated on three cyclic plans whose cycle runs through dependency-only literals: the pruned plan is still cyclic, so the engine's "
               "acyclicity assertion reports it" if not bad else "; ".join(bad[:2]))
    bad = bad_other
    ok = not bad
    ctx.ob(rid, f"{prune.short}/evaluated", ok, loc(prune),
           f"evaluated on {n_cases} abstract plans: exactly the ancestors of the required nodes and the output survive (trivial literals contracted), "
           f"dependency paths and argument edges among the survivors are unchanged, the given plan is untouched" if ok else "; ".join(bad[:3]))
    ctx.floor(rid, "abstract plans the pruning was evaluated on", n_cases, 8)
    rule_execution_graph(ctx, rid, rr)
    if lp is None:
        return
    # ---- literal pruning before execution / before the stale check
    pn = [p for p in lp.params if "predicate" in p]
    ipl = [p for p in lp.params if "inplace" in p]
    bad = []
    n2 = 0
    for label, build, _r, _o in _cases(m, rr)[:9]:
        for pred_kind in ("none", "some"):
            p = build()
            w = p.w
            g0 = w.g
            before_nodes = list(g0._nodes)
            reach0 = _reach_table(g0, before_nodes)
            src_lits = [x for x in before_nodes if x.cls is w.C["Literal"] and not g0.predecessors(x)]
            accept = src_lits[:1] if pred_kind == "some" else src_lits
            kw = {}
            if ipl:
                kw[ipl[0]] = False
            if pn and pred_kind == "some":
                kw[pn[0]] = Stub("predicate", lambda x, _acc=accept: any(x is y for y in _acc))
            elif pn and pn[0] not in lp.defaults:
                kw[pn[0]] = None
            try:
                res = w.interp.call_func(lp, None, [w.plan], kw)
            except AbsRaise as e:
                raise AnalysisError(f"abstract evaluation of {lp.qualname} on '{label}' raised {e.value!r}")
            n2 += 1
            g1 = res.attrs["graph"] if isinstance(res, Obj) and "graph" in res.attrs else None
            if g1 is None:
                bad.append(f"{label}: does not return a plan")
                continue
            kept = list(g1._nodes)
            name = lambda x: w.names.get(id(x), "?")
            removed = [x for x in before_nodes if not any(x is y for y in kept)]
            wrong = [name(x) for x in removed if not any(x is y for y in accept)]
            missed = [name(x) for x in accept if any(x is y for y in kept)]
            why = None
            if wrong:
                why = f"removes {wrong}, which are not predecessor-free literals" + (" accepted by the predicate" if pred_kind == "some" else "")
            elif missed:
                why = f"keeps the source literals {missed}"
            else:
                for u in kept:
                    for v in kept:
                        if u is not v and g1.reach(u, v) != reach0[(id(u), id(v))]:
                            why = f"the dependency path {name(u)} -> {name(v)} changed"
            if why:
                bad.append(f"{label} (predicate: {pred_kind}): {why}")
    ok = not bad
    ctx.ob(rid, f"{lp.short}/evaluated", ok, loc(lp),
           f"evaluated on {n2} abstract plans: removes exactly the predecessor-free literals (those the predicate accepts), nothing else changes" if ok
           else "; ".join(bad[:3]))



def rule_execution_graph(ctx, rid, rr):
    """What the engine is given to execute: the run preparation is evaluated as a whole on abstract plans (literals with and without
    predecessors, as arguments and as pure barriers, chains of them) and the graph of the plan it returns is compared with the plan it
    received: every call is still there, nothing is invented, and between any two surviving nodes there is a dependency path exactly
    when there was one.  (However the preparation removes the value-only literals - a helper, a flag of a helper, inline.)"""
    m = ctx.model
    prep = rr.prep_run
    bad, n = [], 0
    for label, build, _r, output in _cases(m, rr)[:9]:
        p = build()
        w = p.w
        g0 = w.g
        before_nodes = list(g0._nodes)
        before_edges = list(g0._edges)
        reach0 = _reach_table(g0, before_nodes)
        w.interp.ext.setdefault("threading.Lock", lambda: Obj(None, {}, "lock"))
        w.interp.ext.setdefault("threading.RLock", lambda: Obj(None, {}, "lock"))
        observer = Obj(None, {k: Stub(k, lambda *a, **k_: None) for k in ("increment_running", "increment_completed", "increment_failed",
                                                                         "increment_total")}, name="observer")
        kw = {}
        for prm in prep.params[1:]:
            if "inplace" in prm:
                kw[prm] = False
            elif "output" in prm:
                kw[prm] = p.n[output] if output else None
            elif "retry" in prm:
                kw[prm] = Stub("retry", lambda f: f)
            elif "observer" in prm or "progress" in prm:
                kw[prm] = observer
            elif prm not in prep.defaults:
                raise AnalysisError(f"{prep.qualname}: parameter `{prm}` has no abstract value in the evaluation of the run preparation")
        try:
            res = w.interp.call_func(prep, None, [w.plan], kw)
        except AbsRaise as e:
            raise AnalysisError(f"abstract evaluation of {prep.qualname} on '{label}' raised {e.value!r}")
        vals = [res.attrs[x] for x in res.attrs["__tuple_fields__"]] if isinstance(res, Obj) and "__tuple_fields__" in res.attrs else \
            list(res) if isinstance(res, (tuple, list)) else [res]
        plans = [v for v in vals if isinstance(v, Obj) and "graph" in v.attrs]
        if len(plans) != 1:
            raise AnalysisError(f"{prep.qualname}: the result does not contain exactly one plan")
        n += 1
        g1 = plans[0].attrs["graph"]
        kept = list(g1._nodes)
        name = lambda x: w.names.get(id(x), "?")
        why = None
        if g0._nodes != before_nodes or g0._edges != before_edges:
            why = "the given plan is modified although inplace=False"
        lost_calls = [name(x) for x in before_nodes if x.cls is w.C["Call"] and not any(x is y for y in kept)]
        extra = [name(x) for x in kept if not any(x is y for y in before_nodes)]
        if why is None and lost_calls:
            why = f"the calls {lost_calls} are not executed"
        if why is None and extra:
            why = f"nodes {extra} are invented"
        if why is None:
            for u in kept:
                for v in kept:
                    if u is not v and g1.reach(u, v) != reach0[(id(u), id(v))]:
                        why = (f"the dependency path {name(u)} -> {name(v)} is " + ("lost" if reach0[(id(u), id(v))] else "invented") +
                               " in the graph handed to the engine: " + (f"{name(v)} may start before {name(u)} has completed"
                                                                          if reach0[(id(u), id(v))] else "an ordering that the plan does not have"))
                        break
                if why:
                    break
        if why:
            bad.append(f"{label}: {why}")
    ok = not bad
    ctx.ob(rid, f"{prep.short}/execution-graph", ok, loc(prep),
           f"evaluated on {n} abstract plans: the graph handed to the engine has every call of the plan and exactly its dependency paths" if ok
           else "; ".join(bad[:3]))
    ctx.floor(rid, "abstract plans the run preparation was evaluated on", n, 8)
