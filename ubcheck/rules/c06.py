"""C06 - nothing downstream of a failed call runs; the raised error names a real failure (X1-X5)."""
from . import engine as E
from . import runrules as R


def check(ctx):
    ctx.rule("C06.X1", "no successor enqueue is reachable from the exceptional out-edge of the user call; readiness counter atomic")
    ctx.rule("C06.X2", "the handler protecting the user call in the worker catches BaseException and never re-raises")
    ctx.rule("C06.X3", "the first-error cell is written once, under the failure lock, from (this node, caught exception); the engine raises it after the pool")
    ctx.rule("C06.X4", "every handler between the user call and the API chains the very exception object (`from <bound name>`) and names the processed node; run translates the carrier as CallError(e.node) from e.__cause__")
    ctx.rule("C06.X5", "no handler between the engine call and the returned value can absorb the carrier")
    ctx.assume("which of several concurrent failures is recorded first is not decided (the property fixes it for one worker only)")
    r = E.discover(ctx.model)
    rr = R.discover(ctx.model, r)
    E.rule_enqueue_after_success(ctx, "C06.X1", r)
    E.rule_atomic_counter(ctx, "C06.X1", r)
    E.rule_catch_all(ctx, "C06.X2", r)
    E.rule_first_error(ctx, "C06.X3", r)
    R.rule_cause_chain(ctx, "C06.X4", rr)
    R.rule_no_value_on_failure(ctx, "C06.X5", rr)
