"""C09 - rebuilt stored values are written, then read back, before downstream use (W, W', W'')."""
from . import engine as E
from . import runrules as R
from . import rewriterules as W
from . import stalerules as S
from .common import rule_pruning_preserves_paths


def check(ctx):
    ctx.rule("C09.W", "edge-effect table of the per-entry rewriting on the generic neighbourhood (every edge class, predecessors, parallel edges) for fresh/stale x call/source equals the required table; ordering constraints on all two-entry chains in both registration orders")
    ctx.rule("C09.W0", "staleness propagates to everything downstream of a rebuilt value (decision table, shared with C03.T1)")
    ctx.rule("C09.W1", "the out-edge snapshot is read from the current graph inside the per-entry rewriting, before any mutation")
    ctx.rule("C09.W2", "a registered output is redirected to its read node before pruning and in the pair returned to run; run executes that pair")
    ctx.rule("C09.W3", "literal pruning (barriers) bridges the full product of current neighbours before removal")
    ctx.assume("what a store's read returns is user code; run-time ordering then follows from C01")
    er = E.discover(ctx.model)
    rr = R.discover(ctx.model, er)
    S.rule_stale_table(ctx, "C09.W0", rr)
    W.rule_edge_effect_table(ctx, "C09.W", rr)
    W.rule_two_entry_chains(ctx, "C09.W", rr)
    W.rule_snapshot_before_mutation(ctx, "C09.W1", rr)
    R.rule_run_uses_returned_pair(ctx, "C09.W2", rr)
    rule_pruning_preserves_paths(ctx, "C09.W3")
