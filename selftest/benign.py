"""Development tool (not a registered check): run ALL checks against behaviour-preserving refactorings.

For each <dir>/<id>/patch.diff: scratch worktree of /repo HEAD (outside /repo and /verif, removed afterwards), apply the
patch, optionally run the 81 tests on it (PYTHONPATH=<wt>/src), then run `python -m ubcheck all` with UBCHECK_SRC
pointing at the worktree.  Every non-zero result is a false alarm (rc=1) or a robustness failure (rc=2) of the
machinery - the refactoring is supposed to leave every property intact.
usage: benign.py [--dir DIR] [--tests] [--jobs N] [--json FILE] [ids...]"""
import argparse, json, os, re, shutil, subprocess, sys, tempfile
from concurrent.futures import ThreadPoolExecutor
os.environ.setdefault("UBCHECK_EVAL_PROCS", "2")
sys.path.insert(0, os.path.dirname(os.path.abspath(__file__)))
from _corpus import tree_with_patch, remove

ap = argparse.ArgumentParser()
ap.add_argument("--dir", default="/verif/benign")
ap.add_argument("--tests", action="store_true")
ap.add_argument("--jobs", type=int, default=16)
ap.add_argument("--json", default=None)
ap.add_argument("ids", nargs="*")
a = ap.parse_args()
ids = a.ids or sorted(os.listdir(a.dir))


def one(sid):
    d = os.path.join(a.dir, sid)
    patch = os.path.join(d, "patch.diff")
    if not os.path.exists(patch):
        return sid, None, []
    out = tempfile.mkdtemp(prefix="ubout_")
    wt, envx, base, err = tree_with_patch(d, "ubben_")
    try:
        if err:
            return sid, "noapply", [err]
        if a.tests:
            env = dict(os.environ, PYTHONPATH=os.path.join(wt, "src"))
            t = subprocess.run(["/venv/bin/python", "-m", "pytest", "-q", "-p", "no:cacheprovider", "--timeout=900"], env=env, capture_output=True, text=True, cwd=wt)
            tail = t.stdout.strip().splitlines()[-1] if t.stdout.strip() else ""
            if "81 passed" not in tail or t.returncode:
                return sid, "testsfail", [tail]
        env = dict(os.environ, UBCHECK_SRC=os.path.join(wt, "src"), UBCHECK_OUT=out, **envx)
        r = subprocess.run(["/venv/bin/python", "-m", "ubcheck", "all"], cwd="/verif", env=env, capture_output=True, text=True)
        res, detail, cur = {}, [], []
        for line in r.stdout.splitlines():
            mm = re.match(r"RESULT (C\d\d) rc=(\d)", line)
            if mm:
                if mm.group(2) != "0":
                    rules = sorted({w.split("=")[1] for l in cur if "rule=" in l for w in l.split() if w.startswith("rule=")})
                    errs = " ".join(l for l in cur if l.startswith("ANALYSIS-ERROR"))[:300]
                    res[mm.group(1)] = f"rc={mm.group(2)} {','.join(rules)} {errs}".strip()
                    detail += [l for l in cur if "rule=" in l][:4]
                cur = []
            else:
                cur.append(line)
        if r.returncode and not res:
            res["?"] = "crash " + r.stderr[-300:]
        return sid, res, detail
    finally:
        remove(wt)
        shutil.rmtree(out, ignore_errors=True)


results = {}
bad = 0
with ThreadPoolExecutor(a.jobs) as ex:
    for sid, res, detail in ex.map(one, ids):
        if res is None:
            continue
        results[sid] = res
        if res:
            bad += 1
            print(sid, "ALARM", json.dumps(res)[:700])
            for l in detail[:8]:
                print("     ", l[:260])
        else:
            print(sid, "silent")
        sys.stdout.flush()
if a.json:
    json.dump(results, open(a.json, "w"), indent=1)
print(f"{bad} of {len(results)} refactorings raised an alarm")
